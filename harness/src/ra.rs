//! C02 / C03 / C04 / C18 engine: the real `ShmWriter` and `ShmReader` run as OS threads under a
//! deterministic baton-passing scheduler; every shared access (seen through the cfg-gated atomics
//! shim and the record-copy hooks) is a scheduling point and is answered by a release/acquire view
//! memory (append-only message log, per-reader views). The memory semantics here and in
//! lean/ClockBound/Model/Seqlock.lean are the same definition written twice; every run is compared
//! token by token with the model's replay of the same schedule.
use crate::rng::Rng;
use crate::util::*;
use clock_bound_shm::verif_shim::{self, Hooks};
use clock_bound_shm::{ShmReader, ShmWrite, ShmWriter};
use std::cell::Cell;
use std::ffi::CString;
use std::sync::atomic::Ordering as O;
use std::sync::{Arc, Condvar, Mutex};

const NCELLS: usize = 7;

#[derive(Clone, Copy, Debug)]
pub(crate) struct Msg { loc: usize, val: u64, carried: usize } // loc: 0 version, 1 gen, 2+i cell i

#[derive(Clone, Debug, Default)]
struct View { cur: usize, acq: usize, coh: [usize; 2 + NCELLS] }

#[derive(Clone, Debug, PartialEq)]
pub enum Op { New, Write(u64), Open, Snap }

#[derive(Clone, Debug)]
enum Pending {
    Running,
    OpStart,
    Load { loc: usize, ord: O },
    Store { loc: usize, val: u64, ord: O },
    Fence { ord: O },
    CellStore { remaining: Vec<usize>, vals: [u64; NCELLS], dst: usize },
    CellLoad { remaining: Vec<usize> },
    Finished,
}

#[derive(Clone, Copy, Debug, PartialEq)]
pub enum Entry { Step(usize, usize, usize), Kill(usize) }

#[derive(Default, Clone)]
struct Roles { w_load: Option<O>, w_store1: Option<O>, w_fence: Option<O>, w_store2: Option<O>, w_version: Option<O>, r_version: Option<O>, r_gen1: Option<O>, r_fence: Option<O>, r_gen2: Option<O> }

struct Shared {
    pending: Vec<Pending>,
    turn: Option<usize>,
    picks: (usize, usize),
    killed: Vec<bool>,
    abort: bool,
    log: Vec<Msg>,
    views: Vec<View>,
    rel_fence: usize,
    trace: Vec<String>,
    roles: Roles,
    // per-thread role context
    gen_stores_in_write: Vec<usize>,
    gen_loads_in_snap: Vec<usize>,
    is_writer: Vec<bool>,
    maps: Vec<(usize, usize)>,
    path: String,
}

struct Engine { mx: Mutex<Shared>, cv: Condvar }

thread_local! { static TID: Cell<usize> = Cell::new(usize::MAX); }
static ENGINE: Mutex<Option<Arc<Engine>>> = Mutex::new(None);

fn engine() -> Option<Arc<Engine>> { ENGINE.lock().unwrap().clone() }

fn ord_short(o: O) -> &'static str {
    match o { O::Relaxed => "X", O::Acquire => "A", O::Release => "R", O::AcqRel => "AR", O::SeqCst => "SC", _ => "?" }
}
fn is_acq(o: O) -> bool { matches!(o, O::Acquire | O::AcqRel | O::SeqCst) }
fn is_rel(o: O) -> bool { matches!(o, O::Release | O::AcqRel | O::SeqCst) }
fn loc_name(loc: usize) -> String { match loc { 0 => "v".into(), 1 => "g".into(), n => format!("c{}", n - 2) } }

/// record number k; every seventh one (k % 7 == 3) has the shape of what a freshly restarted daemon
/// publishes before chronyd has answered: as-of 0/0, void-after 1000/0, bound 0, status Unknown
pub fn rec_cells(k: u64) -> [u64; NCELLS] {
    if k % 7 == 3 { return [0, 0, 1000, 0, 0, k, 0]; }
    let mut c = [0u64; NCELLS];
    for i in 0..6 { c[i] = k * 8 + i as u64 + 1; }
    c[6] = k % 3;
    c
}

impl Shared {
    fn last_before(&self, loc: usize, n: usize) -> Option<usize> {
        (0..n.min(self.log.len())).rev().find(|&j| self.log[j].loc == loc)
    }
    fn latest(&self, loc: usize) -> u64 { self.last_before(loc, self.log.len()).map(|j| self.log[j].val).unwrap_or(0) }
    fn admissible(&self, v: &View, loc: usize) -> Vec<usize> {
        let lo = v.coh[loc].max(self.last_before(loc, v.cur).unwrap_or(0));
        (0..self.log.len()).filter(|&j| j >= lo && self.log[j].loc == loc).collect()
    }
    fn load(&mut self, tid: usize, loc: usize, ord: O, pick: usize) -> u64 {
        let v = self.views[tid].clone();
        let adm = self.admissible(&v, loc);
        if adm.is_empty() { return 0; }
        let j = adm[adm.len() - 1 - pick.min(adm.len() - 1)];
        let m = self.log[j];
        let vw = &mut self.views[tid];
        vw.coh[loc] = j;
        vw.acq = vw.acq.max(m.carried);
        if is_acq(ord) { vw.cur = vw.cur.max(m.carried); }
        m.val
    }
    fn store(&mut self, loc: usize, val: u64, ord: O) {
        let carried = if is_rel(ord) { self.log.len() + 1 } else { self.rel_fence };
        self.log.push(Msg { loc, val, carried });
    }
    fn emit(&mut self, tid: usize, tok: String) { self.trace.push(format!("{}|{}", tid, tok)); }
    fn classify(&mut self, addr: usize) -> Option<usize> {
        for pass in 0..2 {
            for &(s, e) in &self.maps {
                if addr >= s && addr < e {
                    let off = addr - s;
                    return match off { 12 => Some(0), 14 => Some(1), o if o >= 16 && o < 16 + 8 * NCELLS && (o - 16) % 8 == 0 => Some(2 + (o - 16) / 8), _ => None };
                }
            }
            if pass == 0 { self.refresh_maps(); }
        }
        None
    }
    fn refresh_maps(&mut self) {
        self.maps.clear();
        if let Ok(s) = std::fs::read_to_string("/proc/self/maps") {
            for l in s.lines() {
                if l.ends_with(&self.path) {
                    let r = l.split_whitespace().next().unwrap();
                    let (a, b) = r.split_once('-').unwrap();
                    self.maps.push((usize::from_str_radix(a, 16).unwrap(), usize::from_str_radix(b, 16).unwrap()));
                }
            }
        }
    }
}

/// park with a pending access, wait for the grant, perform the access; returns (value, picks)
fn yield_access(p: Pending) -> (u64, usize) {
    let tid = TID.with(|t| t.get());
    let eng = engine().expect("engine");
    let mut g = eng.mx.lock().unwrap();
    g.pending[tid] = p.clone();
    eng.cv.notify_all();
    loop {
        if g.abort || g.killed[tid] {
            let was_kill = g.killed[tid];
            g.killed[tid] = false;
            g.pending[tid] = Pending::Running;
            g.turn = None;
            drop(g);
            std::panic::panic_any(if was_kill { "killed" } else { "abandoned" });
        }
        if g.turn == Some(tid) { break; }
        g = eng.cv.wait(g).unwrap();
    }
    let (pc, pm) = g.picks;
    let mut out = (0u64, 0usize);
    match p {
        Pending::OpStart => {}
        Pending::Load { loc, ord } => {
            let writer = g.is_writer[tid];
            let v = if writer { g.latest(loc) } else { g.load(tid, loc, ord, pm) };
            g.emit(tid, format!("L:{}:{}:{}", loc_name(loc), ord_short(ord), v));
            out.0 = v;
        }
        Pending::Store { loc, val, ord } => {
            g.store(loc, val, ord);
            g.emit(tid, format!("S:{}:{}:{}", loc_name(loc), ord_short(ord), val));
        }
        Pending::Fence { ord } => {
            if g.is_writer[tid] { if is_rel(ord) { g.rel_fence = g.log.len(); } }
            else if is_acq(ord) { let vw = &mut g.views[tid]; vw.cur = vw.cur.max(vw.acq); }
            g.emit(tid, format!("F:{}", ord_short(ord)));
        }
        Pending::CellStore { remaining, vals, dst } => {
            let c = remaining[pc.min(remaining.len() - 1)];
            g.store(2 + c, vals[c], O::Relaxed);
            // keep the real mapping in step with the modelled memory, cell by cell (cell 6: only the
            // four status bytes; the upper half is struct padding)
            unsafe {
                if c == 6 { std::ptr::write_volatile((dst + 48) as *mut u32, vals[6] as u32); }
                else { std::ptr::write_volatile((dst + 8 * c) as *mut u64, vals[c]); }
            }
            g.emit(tid, format!("S:c{}:N:{}", c, vals[c]));
            out.1 = c;
        }
        Pending::CellLoad { remaining } => {
            let c = remaining[pc.min(remaining.len() - 1)];
            let v = g.load(tid, 2 + c, O::Relaxed, pm);
            g.emit(tid, format!("L:c{}:N:{}", c, v));
            out = (v, c);
        }
        _ => {}
    }
    g.pending[tid] = Pending::Running;
    g.turn = None;
    out
}

// ------------------------------------------------------------------ hooks (called from /repo code)

fn in_engine() -> bool { TID.with(|t| t.get()) != usize::MAX }

fn h_load(addr: usize, _w: u8, ord: O, real: u64) -> u64 {
    if !in_engine() { return real; }
    let tid = TID.with(|t| t.get());
    let eng = engine().unwrap();
    let loc = { let mut g = eng.mx.lock().unwrap(); let l = g.classify(addr); if let Some(l) = l { note_role_load(&mut g, tid, l, ord); } l };
    match loc { Some(loc) => yield_access(Pending::Load { loc, ord }).0, None => real }
}
fn h_store(addr: usize, _w: u8, ord: O, val: u64) {
    if !in_engine() { return; }
    let tid = TID.with(|t| t.get());
    let eng = engine().unwrap();
    let loc = { let mut g = eng.mx.lock().unwrap(); let l = g.classify(addr); if let Some(l) = l { note_role_store(&mut g, tid, l, ord); } l };
    if let Some(loc) = loc { yield_access(Pending::Store { loc, val, ord }); }
}
fn h_fence(ord: O) {
    if !in_engine() { return; }
    let tid = TID.with(|t| t.get());
    let eng = engine().unwrap();
    { let mut g = eng.mx.lock().unwrap(); if g.is_writer[tid] { g.roles.w_fence.get_or_insert(ord); } else { g.roles.r_fence.get_or_insert(ord); } }
    yield_access(Pending::Fence { ord });
}
fn h_data_write(dst: usize, src: &[u8]) {
    if !in_engine() { return; }
    let mut vals = [0u64; NCELLS];
    for i in 0..NCELLS { vals[i] = u64::from_ne_bytes(src[8 * i..8 * i + 8].try_into().unwrap()); }
    vals[6] &= 0xffff_ffff; // status; the upper four bytes are padding
    let mut remaining: Vec<usize> = (0..NCELLS).collect();
    while !remaining.is_empty() {
        let (_, c) = yield_access(Pending::CellStore { remaining: remaining.clone(), vals, dst });
        remaining.retain(|&x| x != c);
    }
}
fn h_data_read(_src: usize, out: &mut [u8]) {
    if !in_engine() { return; }
    let mut remaining: Vec<usize> = (0..NCELLS).collect();
    let mut vals = [0u64; NCELLS];
    while !remaining.is_empty() {
        let (v, c) = yield_access(Pending::CellLoad { remaining: remaining.clone() });
        vals[c] = v;
        remaining.retain(|&x| x != c);
    }
    // cell 6 is the status enum: only 0..=2 are valid discriminants (records in scenarios respect that)
    if vals[6] > 2 { vals[6] = 0; }
    for i in 0..NCELLS { out[8 * i..8 * i + 8].copy_from_slice(&vals[i].to_ne_bytes()); }
}
fn h_point(_n: &'static str) {}

fn note_role_load(g: &mut Shared, tid: usize, loc: usize, ord: O) {
    if g.is_writer[tid] { if loc == 1 { g.roles.w_load.get_or_insert(ord); } }
    else if loc == 0 { g.roles.r_version.get_or_insert(ord); }
    else if loc == 1 {
        if g.gen_loads_in_snap[tid] == 0 { g.roles.r_gen1.get_or_insert(ord); } else { g.roles.r_gen2.get_or_insert(ord); }
        g.gen_loads_in_snap[tid] += 1;
    }
}
fn note_role_store(g: &mut Shared, tid: usize, loc: usize, ord: O) {
    if !g.is_writer[tid] { return; }
    if loc == 0 { g.roles.w_version.get_or_insert(ord); }
    else if loc == 1 {
        if g.gen_stores_in_write[tid] == 0 { g.roles.w_store1.get_or_insert(ord); } else { g.roles.w_store2.get_or_insert(ord); }
        g.gen_stores_in_write[tid] += 1;
    }
}

// ------------------------------------------------------------------ scenario

#[derive(Clone, Debug)]
pub struct Scenario {
    pub init: String,                   // "fresh" | "wiped" | "valid g k"
    pub threads: Vec<(bool, Vec<Vec<Op>>)>, // (is_writer, incarnations)
}

fn op_text(o: &Op) -> String { match o { Op::New => "n".into(), Op::Write(k) => format!("w{}", k), Op::Open => "o".into(), Op::Snap => "s".into() } }

pub fn scenario_text(sc: &Scenario) -> String {
    let mut parts = vec![sc.init.clone()];
    for (w, incs) in &sc.threads {
        let body: Vec<String> = incs.iter().map(|ops| ops.iter().map(op_text).collect::<Vec<_>>().join(" ")).collect();
        parts.push(format!("{} {}", if *w { "W" } else { "R" }, body.join(" / ")));
    }
    parts.join(" ; ")
}

pub fn parse_scenario(line: &str) -> (Scenario, Vec<Entry>) {
    // sl <init> ; <thread> ; ... ; S <entries>
    let body = line.trim().strip_prefix("sl ").unwrap_or(line);
    let parts: Vec<&str> = body.split(';').map(|s| s.trim()).collect();
    let init = parts[0].to_string();
    let mut threads = Vec::new();
    let mut sched = Vec::new();
    for p in &parts[1..] {
        let t: Vec<&str> = p.split_whitespace().collect();
        match t.first().copied() {
            Some("W") | Some("R") => {
                let mut incs = vec![Vec::new()];
                for x in &t[1..] {
                    match *x {
                        "/" => incs.push(Vec::new()),
                        "n" => incs.last_mut().unwrap().push(Op::New),
                        "o" => incs.last_mut().unwrap().push(Op::Open),
                        "s" => incs.last_mut().unwrap().push(Op::Snap),
                        w if w.starts_with('w') => incs.last_mut().unwrap().push(Op::Write(w[1..].parse().unwrap())),
                        _ => panic!("bad op {}", x),
                    }
                }
                threads.push((t[0] == "W", incs));
            }
            Some("S") => {
                for x in &t[1..] {
                    let f: Vec<&str> = x.split(':').collect();
                    if f.len() == 2 && f[1] == "X" { sched.push(Entry::Kill(f[0].parse().unwrap())); }
                    else { sched.push(Entry::Step(f[0].parse().unwrap(), f[1].parse().unwrap(), f[2].parse().unwrap())); }
                }
            }
            _ => {}
        }
    }
    (Scenario { init, threads }, sched)
}

pub(crate) fn write_initial_file(path: &str, init: &str) -> Vec<Msg> {
    let _ = std::fs::remove_file(path);
    let t: Vec<&str> = init.split_whitespace().collect();
    let (ver, gen, cells, make) = match t[0] {
        "fresh" => (0u64, 0u64, [0u64; NCELLS], false),
        "wiped" => (0, 0, [0u64; NCELLS], true),
        "valid" => (1, t[1].parse().unwrap(), rec_cells(t[2].parse().unwrap()), true),
        _ => panic!("bad init"),
    };
    if make {
        let mut b = Vec::new();
        b.extend_from_slice(&0x414D5A4Eu32.to_ne_bytes());
        b.extend_from_slice(&0x43420200u32.to_ne_bytes());
        b.extend_from_slice(&72u32.to_ne_bytes());
        b.extend_from_slice(&(ver as u16).to_ne_bytes());
        b.extend_from_slice(&(gen as u16).to_ne_bytes());
        for c in cells.iter() { b.extend_from_slice(&c.to_ne_bytes()); }
        std::fs::write(path, &b).unwrap();
    }
    let n = NCELLS + 2;
    let mut log: Vec<Msg> = (0..NCELLS).map(|i| Msg { loc: 2 + i, val: cells[i], carried: n }).collect();
    log.push(Msg { loc: 0, val: ver, carried: n });
    log.push(Msg { loc: 1, val: gen, carried: n });
    log
}

pub(crate) fn cells_of_record(r: &clock_bound_shm::ClockErrorBound) -> [u64; NCELLS] {
    let f = record_fields(r);
    [f[0] as u64, f[1] as u64, f[2] as u64, f[3] as u64, f[4] as u64, (f[5] as u64) | ((f[6] as u64) << 32), f[7] as u64]
}
pub(crate) fn record_of_cells(c: [u64; NCELLS]) -> clock_bound_shm::ClockErrorBound {
    mk_record(&[c[0] as i64, c[1] as i64, c[2] as i64, c[3] as i64, c[4] as i64, (c[5] & 0xffff_ffff) as i64, (c[5] >> 32) as i64, c[6] as i64])
}

fn thread_body(eng: Arc<Engine>, tid: usize, is_writer: bool, incs: Vec<Vec<Op>>, path: String) {
    TID.with(|t| t.set(tid));
    let mut inc = 0;
    while inc < incs.len() {
        let ops = incs[inc].clone();
        let eng2 = eng.clone();
        let p2 = path.clone();
        let r = guarded(std::panic::AssertUnwindSafe(move || {
            let mut writer: Option<ShmWriter> = None;
            let mut reader: Option<ShmReader> = None;
            for op in ops {
                yield_access(Pending::OpStart);
                match op {
                    Op::New => {
                        { let mut g = eng2.mx.lock().unwrap(); g.emit(tid, "call:n".into()); g.rel_fence = 0; }
                        writer = None; // a new process: the old mapping is gone
                        let w = ShmWriter::new(std::path::Path::new(&p2)).expect("ShmWriter::new");
                        writer = Some(w);
                        let mut g = eng2.mx.lock().unwrap(); g.emit(tid, "ret:n".into());
                    }
                    Op::Write(k) => {
                        { let mut g = eng2.mx.lock().unwrap(); g.emit(tid, format!("call:w:{}", k)); g.gen_stores_in_write[tid] = 0; }
                        let rec = record_of_cells(rec_cells(k));
                        writer.as_mut().expect("write before new").write(&rec);
                        let mut g = eng2.mx.lock().unwrap(); g.emit(tid, format!("ret:w:{}", k));
                    }
                    Op::Open => {
                        let c = CString::new(p2.clone()).unwrap();
                        let res = ShmReader::new(&c);
                        let mut g = eng2.mx.lock().unwrap();
                        g.views[tid] = View::default();
                        match res { Ok(r) => { reader = Some(r); g.emit(tid, "open:ok".into()); } Err(_) => { reader = None; g.emit(tid, "open:err".into()); } }
                    }
                    Op::Snap => {
                        match reader.as_mut() {
                            None => { let mut g = eng2.mx.lock().unwrap(); g.emit(tid, "skip".into()); }
                            Some(r) => {
                                { let mut g = eng2.mx.lock().unwrap(); g.emit(tid, "call:s".into()); g.gen_loads_in_snap[tid] = 0; }
                                let res = r.snapshot().map(|c| cells_of_record(c));
                                let mut g = eng2.mx.lock().unwrap();
                                match res {
                                    Ok(c) => { let s: Vec<String> = c.iter().map(|x| x.to_string()).collect(); g.emit(tid, format!("ret:ok:{}", s.join(","))); }
                                    Err(_) => g.emit(tid, "ret:err".into()),
                                }
                            }
                        }
                    }
                }
            }
        }));
        let _ = is_writer;
        match r {
            Ok(()) => break,
            Err(()) => {
                // killed (crash) or abandoned
                let g = eng.mx.lock().unwrap();
                if g.abort { break; }
                drop(g);
                inc += 1;
            }
        }
    }
    let mut g = eng.mx.lock().unwrap();
    g.pending[tid] = Pending::Finished;
    eng.cv.notify_all();
}

pub struct RunResult { pub sched: Vec<Entry>, pub trace: Vec<String>, pub ann: String }

/// run a scenario; `script` = Some(entries) replays exactly, None = seeded random schedule
pub fn run(sc: &Scenario, script: Option<Vec<Entry>>, rng: &mut Rng, max_steps: usize) -> RunResult {
    let path = format!("{}/sl-shm", scratch_dir());
    let log = write_initial_file(&path, &sc.init);
    let n = sc.threads.len();
    let eng = Arc::new(Engine {
        mx: Mutex::new(Shared {
            pending: vec![Pending::Running; n], turn: None, picks: (0, 0), killed: vec![false; n], abort: false,
            log, views: vec![View::default(); n], rel_fence: 0, trace: Vec::new(), roles: Roles::default(),
            gen_stores_in_write: vec![0; n], gen_loads_in_snap: vec![0; n], is_writer: sc.threads.iter().map(|t| t.0).collect(),
            maps: Vec::new(), path: path.clone(),
        }),
        cv: Condvar::new(),
    });
    *ENGINE.lock().unwrap() = Some(eng.clone());
    *verif_shim::HOOKS.write().unwrap() = Some(Hooks { load: h_load, store: h_store, fence: h_fence, data_write: h_data_write, data_read: h_data_read, point: h_point });
    let mut handles = Vec::new();
    for (tid, (w, incs)) in sc.threads.iter().enumerate() {
        let (e, incs, p, w) = (eng.clone(), incs.clone(), path.clone(), *w);
        handles.push(std::thread::spawn(move || thread_body(e, tid, w, incs, p)));
    }
    let mut sched: Vec<Entry> = Vec::new();
    let mut script_iter = script.map(|s| s.into_iter());
    let mut steps = 0usize;
    let mut inc_no = vec![0usize; n];
    loop {
        let mut g = eng.mx.lock().unwrap();
        // wait until nobody is running
        while g.turn.is_some() || g.pending.iter().any(|p| matches!(p, Pending::Running)) {
            g = eng.cv.wait(g).unwrap();
        }
        let enabled: Vec<usize> = (0..n).filter(|&t| !matches!(g.pending[t], Pending::Finished)).collect();
        let entry = match script_iter.as_mut() {
            Some(it) => match it.next() { Some(e) => e, None => break },
            None => {
                if enabled.is_empty() || steps >= max_steps { break; }
                let tid = enabled[rng.below(enabled.len() as u64) as usize];
                // crash the writer mid-update now and then, if it has another incarnation to run
                let mid = matches!(g.pending[tid], Pending::Load { .. } | Pending::Store { .. } | Pending::Fence { .. } | Pending::CellStore { .. });
                if g.is_writer[tid] && mid && inc_no[tid] + 1 < sc.threads[tid].1.len() && rng.chance(1, 12) {
                    Entry::Kill(tid)
                } else {
                    let (pc, pm) = match &g.pending[tid] {
                        Pending::CellStore { remaining, .. } => (rng.below(remaining.len() as u64) as usize, 0),
                        Pending::CellLoad { remaining } => {
                            let c = rng.below(remaining.len() as u64) as usize;
                            let adm = g.admissible(&g.views[tid], 2 + remaining[c]).len();
                            (c, if rng.chance(3, 5) { 0 } else { rng.below(adm.max(1) as u64) as usize })
                        }
                        Pending::Load { loc, .. } if !g.is_writer[tid] => {
                            let adm = g.admissible(&g.views[tid], *loc).len();
                            (0, if rng.chance(3, 5) { 0 } else { rng.below(adm.max(1) as u64) as usize })
                        }
                        _ => (0, 0),
                    };
                    Entry::Step(tid, pc, pm)
                }
            }
        };
        steps += 1;
        sched.push(entry);
        match entry {
            Entry::Kill(tid) => {
                if matches!(g.pending[tid], Pending::Finished) || !g.is_writer[tid] { continue; }
                g.emit(tid, "crash".into());
                inc_no[tid] += 1;
                if matches!(g.pending[tid], Pending::OpStart) && false { continue; }
                g.killed[tid] = true;
                g.pending[tid] = Pending::Running;
                eng.cv.notify_all();
            }
            Entry::Step(tid, pc, pm) => {
                if tid >= n || matches!(g.pending[tid], Pending::Finished) { if tid < n { g.emit(tid, "done".into()); } continue; }
                g.picks = (pc, pm);
                g.turn = Some(tid);
                g.pending[tid] = Pending::Running;
                eng.cv.notify_all();
            }
        }
    }
    // abandon whatever is still parked
    {
        let mut g = eng.mx.lock().unwrap();
        g.abort = true;
        eng.cv.notify_all();
    }
    for h in handles { let _ = h.join(); }
    close_leaked(&path);
    *verif_shim::HOOKS.write().unwrap() = None;
    *ENGINE.lock().unwrap() = None;
    let g = eng.mx.lock().unwrap();
    let r = &g.roles;
    let f = |o: Option<O>, d: &str| o.map(ord_short).unwrap_or(d).to_string();
    let seen_recheck = r.r_gen2.is_some();
    let ann = vec![f(r.w_load, "A"), f(r.w_store1, "R"), if r.w_store2.is_some() { f(r.w_fence, "-") } else { "R".into() }, f(r.w_store2, "R"), f(r.w_version, "X"),
                   f(r.r_version, "A"), f(r.r_gen1, "A"), if seen_recheck { f(r.r_fence, "-") } else { "A".into() }, f(r.r_gen2, "A")].join(" ");
    RunResult { sched, trace: g.trace.clone(), ann }
}

pub fn sched_text(s: &[Entry]) -> String {
    s.iter().map(|e| match e { Entry::Step(t, a, b) => format!("{}:{}:{}", t, a, b), Entry::Kill(t) => format!("{}:X", t) }).collect::<Vec<_>>().join(" ")
}

/// replay: `sl <scenario> ; S <schedule>` -> answer
pub fn exec_sl(line: &str) -> String {
    let (sc, sched) = parse_scenario(line);
    let mut rng = Rng::new(0);
    let r = run(&sc, Some(sched), &mut rng, usize::MAX);
    format!("ann {} ; {}", r.ann, r.trace.join(" "))
}

pub fn gen_scenario(rng: &mut Rng) -> Scenario {
    let init = match rng.below(6) {
        0 | 1 => "fresh".to_string(),
        2 => "wiped".to_string(),
        3 => format!("valid {} {}", rng.pick(&[2u64, 4, 100, 65532, 65534]), 90 + rng.below(5)),
        4 => format!("valid {} {}", rng.pick(&[1u64, 3, 65533, 65535]), 90 + rng.below(5)), // odd: a crashed writer's leftover
        _ => format!("valid {} {}", 2 * rng.range(1, 32767) as u64, 90 + rng.below(5)),
    };
    let mut k = 1u64;
    let n_inc = if rng.chance(1, 3) { rng.range(2, 3) } else { 1 } as usize;
    let mut incs = Vec::new();
    for _ in 0..n_inc {
        let mut ops = vec![Op::New];
        for _ in 0..rng.range(1, 4) { ops.push(Op::Write(k)); k += 1; }
        incs.push(ops);
    }
    let mut threads = vec![(true, incs)];
    for _ in 0..rng.range(1, 2) {
        let mut ops = Vec::new();
        // readers created before / between / after publications: a failed open is retried
        for _ in 0..rng.range(1, 3) { ops.push(Op::Open); for _ in 0..rng.range(1, 3) { ops.push(Op::Snap); } }
        threads.push((false, vec![ops]));
    }
    Scenario { init, threads }
}

pub fn generate(seed: u64, count: usize, mut emit: impl FnMut(String, String)) {
    let mut rng = Rng::new(seed ^ 0x5e91);
    for _ in 0..count {
        let sc = gen_scenario(&mut rng);
        let r = run(&sc, None, &mut rng, 600);
        emit(format!("sl {} ; S {}", scenario_text(&sc), sched_text(&r.sched)), format!("ann {} ; {}", r.ann, r.trace.join(" ")));
    }
}

// ------------------------------------------------------------------ C18: solo reader against scripted values
//
// `slx <g0> <period>`: the real `snapshot()` runs alone, at full speed; every load is answered by a
// script instead of a memory: version = 1; the k-th generation load returns g0 + 2*(k % period)
// (consecutive values differ when period > 1, so no attempt is ever accepted: a writer that updates
// continuously); cells return 0. The answer counts the loads by kind until the call returns.
// C18 quantifies over any writer behaviour, so any script is a legitimate adversary.
use std::sync::atomic::AtomicU64;
static SOLO_G0: AtomicU64 = AtomicU64::new(0);
static SOLO_PERIOD: AtomicU64 = AtomicU64::new(1);
static SOLO_GEN_LOADS: AtomicU64 = AtomicU64::new(0);
static SOLO_VER_LOADS: AtomicU64 = AtomicU64::new(0);
static SOLO_CELL_COPIES: AtomicU64 = AtomicU64::new(0);
static SOLO_FENCES: AtomicU64 = AtomicU64::new(0);
const SOLO_LIMIT: u64 = 20_000_000;

static SOLO_MODE: AtomicU64 = AtomicU64::new(0);
/// set while the C API is on the stack: a panic could not unwind through `extern "C"`; the child's time limit ends a spin
static SOLO_NO_PANIC: std::sync::atomic::AtomicBool = std::sync::atomic::AtomicBool::new(false);

fn solo_load(addr: usize, _w: u8, _o: O, real: u64) -> u64 {
    match addr & 0xfff {
        12 => { SOLO_VER_LOADS.fetch_add(1, O::Relaxed); 1 }
        14 => {
            let k = SOLO_GEN_LOADS.fetch_add(1, O::Relaxed);
            if k > SOLO_LIMIT && !SOLO_NO_PANIC.load(O::Relaxed) { std::panic::panic_any("unbounded"); }
            let g0 = SOLO_G0.load(O::Relaxed);
            match SOLO_MODE.load(O::Relaxed) {
                // a writer that dies right after the reader's first load: odd for ever
                1 => if k == 0 { g0 } else { (g0 + 1) & 0xffff },
                // frozen odd (second call of a scenario)
                2 => (g0 + 1) & 0xffff,
                // stable at a new even, non-zero value (third call: the writer, or its successor, is quiet)
                4 => { let e = ((g0 / 2) * 2 + 2 * 20011) & 0xffff; if e == 0 { 2 } else { e } }
                // alternating: odd (update in flight), then a new even value, then odd again, …
                // the segment is wiped in place under the reader: after its first load the generation reads 0 for ever
                5 => if k == 0 { g0 } else { 0 },
                3 => if k == 0 { g0 } else if k % 2 == 1 { (g0 + 1) & 0xffff } else { (g0 + 2 * ((k / 2) % SOLO_PERIOD.load(O::Relaxed) + 1)) & 0xffff },
                _ => (g0 + 2 * (k % SOLO_PERIOD.load(O::Relaxed))) & 0xffff,
            }
        }
        _ => real,
    }
}
fn solo_store(_a: usize, _w: u8, _o: O, _v: u64) {}
fn solo_fence(_o: O) { SOLO_FENCES.fetch_add(1, O::Relaxed); }
fn solo_data_write(_d: usize, _s: &[u8]) {}
/// every copy returns recognisable, never-published cell values (k-th copy: 1000+k in every cell, status 1)
fn solo_data_read(_s: usize, out: &mut [u8]) {
    let k = SOLO_CELL_COPIES.fetch_add(1, O::Relaxed);
    for i in 0..NCELLS { let v: u64 = if i == 6 { 1 } else { 1000 + (k % 1000) }; out[8 * i..8 * i + 8].copy_from_slice(&v.to_ne_bytes()); }
}

/// `slx <g0> <period> [<mode>]`: mode 0 = the generation changes at every load (cycle of `period` even
/// values from g0), mode 1 = g0 at the first load, then odd for ever (writer died right after the reader
/// started copying). After the first call returned, the generation is frozen odd and `snapshot()` is
/// called AGAIN: it must answer from the reader's previous snapshot, which failed attempts must not
/// have touched.
pub fn exec_slx(toks: &[&str]) -> String {
    let g0: u64 = toks[1].parse().unwrap();
    let period: u64 = toks[2].parse::<u64>().unwrap().max(1);
    let mode: u64 = toks.get(3).map(|t| t.parse().unwrap()).unwrap_or(0);
    let path = format!("{}/slx-shm", scratch_dir());
    write_initial_file(&path, &format!("valid {} 90", if g0 == 0 { 2 } else { g0 }));
    let c = CString::new(path).unwrap();
    let mut reader = match ShmReader::new(&c) { Ok(r) => r, Err(_) => return "open-failed".into() };
    SOLO_G0.store(g0, O::Relaxed); SOLO_PERIOD.store(period, O::Relaxed); SOLO_MODE.store(mode, O::Relaxed);
    for a in [&SOLO_GEN_LOADS, &SOLO_VER_LOADS, &SOLO_CELL_COPIES, &SOLO_FENCES] { a.store(0, O::Relaxed); }
    *verif_shim::HOOKS.write().unwrap() = Some(Hooks { load: solo_load, store: solo_store, fence: solo_fence, data_write: solo_data_write, data_read: solo_data_read, point: h_point });
    let cells_txt = |c: [u64; NCELLS]| c.iter().map(|x| x.to_string()).collect::<Vec<_>>().join(",");
    let r = guarded(std::panic::AssertUnwindSafe(|| reader.snapshot().map(|c| cells_of_record(c))));
    let counts = format!("v{} g{} c{} f{}", SOLO_VER_LOADS.load(O::Relaxed), SOLO_GEN_LOADS.load(O::Relaxed), SOLO_CELL_COPIES.load(O::Relaxed), SOLO_FENCES.load(O::Relaxed));
    // second call: generation frozen odd
    SOLO_MODE.store(2, O::Relaxed);
    let r2 = guarded(std::panic::AssertUnwindSafe(|| reader.snapshot().map(|c| cells_of_record(c))));
    // third call: the generation is stable at a new even value
    SOLO_MODE.store(4, O::Relaxed);
    let r3 = guarded(std::panic::AssertUnwindSafe(|| reader.snapshot().map(|c| cells_of_record(c))));
    *verif_shim::HOOKS.write().unwrap() = None;
    let second = match r2 { Ok(Ok(c)) => format!("then:{}", cells_txt(c)), Ok(Err(_)) => "then:err".into(), Err(()) => "then:unbounded".into() };
    let third = match r3 { Ok(Ok(c)) => format!("final:{}", cells_txt(c)), Ok(Err(_)) => "final:err".into(), Err(()) => "final:unbounded".into() };
    match r {
        Ok(Ok(c)) => format!("ok {} {} {} {}", cells_txt(c), counts, second, third),
        Ok(Err(_)) => format!("err {} {} {}", counts, second, third),
        Err(()) => format!("unbounded {} {} {}", counts, second, third),
    }
}

/// `slxc <g0> <period> [<mode>]`: the scripts of `slx` through the C API: one `clockbound_ctx`, three
/// `clockbound_now()` calls (first under the scripted writer, second with the generation frozen odd, third with
/// the generation stable at a new even value). The answer is the class of each call: `ok` or `err <kind>`.
pub fn exec_slxc(toks: &[&str]) -> String {
    // in a child process: a panic inside an `extern "C"` function aborts, and a C-side spin cannot be unwound
    let toks: Vec<String> = toks.iter().map(|s| s.to_string()).collect();
    let limit = crate::util::watchdog_limit().saturating_sub(8).max(10);
    let r = crate::util::in_child(limit, move || { let t: Vec<&str> = toks.iter().map(|s| s.as_str()).collect(); exec_slxc_here(&t) });
    if r == "timeout" || r.starts_with("crash") { "unbounded unbounded unbounded".into() } else { r }
}

fn exec_slxc_here(toks: &[&str]) -> String {
    use crate::ffi;
    let g0: u64 = toks[1].parse().unwrap();
    let period: u64 = toks[2].parse::<u64>().unwrap().max(1);
    let mode: u64 = toks.get(3).map(|t| t.parse().unwrap()).unwrap_or(0);
    let path = format!("{}/slxc-shm", scratch_dir());
    write_initial_file(&path, &format!("valid {} 90", if g0 == 0 { 2 } else { g0 }));
    let c = CString::new(path).unwrap();
    let mut err: ffi::clockbound_err = unsafe { std::mem::zeroed() };
    let ctx = unsafe { ffi::clockbound_open(c.as_ptr(), &mut err) };
    if ctx.is_null() { return "open-failed".into(); }
    SOLO_G0.store(g0, O::Relaxed); SOLO_PERIOD.store(period, O::Relaxed); SOLO_MODE.store(mode, O::Relaxed);
    SOLO_NO_PANIC.store(true, O::Relaxed);
    for a in [&SOLO_GEN_LOADS, &SOLO_VER_LOADS, &SOLO_CELL_COPIES, &SOLO_FENCES] { a.store(0, O::Relaxed); }
    *verif_shim::HOOKS.write().unwrap() = Some(Hooks { load: solo_load, store: solo_store, fence: solo_fence, data_write: solo_data_write, data_read: solo_data_read, point: h_point });
    // readings far beyond every void-after of the scripted records: the calls are judged by their class only
    crate::vclock::set(crate::vclock::REALTIME, 1_700_000_000, 0);
    crate::vclock::set(crate::vclock::MONOTONIC_COARSE, 1_000_000, 0);
    crate::vclock::enable();
    let ctx_addr = ctx as usize;
    let mut call = || -> String {
        let r = guarded(move || {
            let mut res: ffi::clockbound_now_result = unsafe { std::mem::zeroed() };
            let e = unsafe { ffi::clockbound_now(ctx_addr as *mut ffi::clockbound_ctx, &mut res) };
            if e.is_null() { "ok".to_string() } else { format!("err{}", unsafe { std::ptr::read(&(*e).kind as *const ffi::clockbound_err_kind as *const u32) }) }
        });
        r.unwrap_or_else(|_| "unbounded".into())
    };
    let r1 = call();
    SOLO_MODE.store(2, O::Relaxed);
    let r2 = call();
    SOLO_MODE.store(4, O::Relaxed);
    let r3 = call();
    crate::vclock::disable();
    *verif_shim::HOOKS.write().unwrap() = None;
    unsafe { ffi::clockbound_close(ctx_addr as *mut ffi::clockbound_ctx); }
    format!("{} {} {}", r1, r2, r3)
}

// ------------------------------------------------------------------ K1: the 16-bit generation ABA, replayed on the real code
/// `slaba`: a reader is stalled inside ONE snapshot attempt (after its first generation load and three
/// cell loads) while the real writer completes exactly 32767 updates, which brings the generation back
/// to the value the reader started from; the reader then finishes the copy and re-checks.
pub fn exec_slaba() -> String {
    let n_updates: u64 = 32767;
    let mut wops = vec![Op::New];
    for k in 1..=n_updates { wops.push(Op::Write(k)); }
    let sc = Scenario { init: "valid 4 90".into(), threads: vec![(true, vec![wops]), (false, vec![vec![Op::Open, Op::Snap]])] };
    let mut sched: Vec<Entry> = Vec::new();
    // reader: open, call, version load, generation load, three cell loads (cells 0,1,2: pick todo[0])
    for _ in 0..7 { sched.push(Entry::Step(1, 0, 0)); }
    // writer: new (call + version store), then the updates; each update = call + load + store + [fence] + 7 cells + store
    // (the schedule is generous: surplus entries for a finished thread are answered `done`)
    let per_update = 1 + 1 + 1 + 1 + 7 + 1;
    for _ in 0..(2 + n_updates as usize * per_update) { sched.push(Entry::Step(0, 0, 0)); }
    // reader: remaining four cells, [fence], re-check (+ slack)
    for _ in 0..8 { sched.push(Entry::Step(1, 0, 0)); }
    let mut rng = Rng::new(0);
    let r = run(&sc, Some(sched), &mut rng, usize::MAX);
    let ret = r.trace.iter().rev().find(|t| t.starts_with("1|ret:")).cloned().unwrap_or_else(|| "1|none".into());
    let completed = r.trace.iter().filter(|t| t.starts_with("0|ret:w:")).count();
    let cells: Vec<u64> = ret.rsplit(':').next().unwrap_or("").split(',').filter_map(|x| x.parse().ok()).collect();
    let old = rec_cells(90); let new = rec_cells(n_updates);
    let torn = cells.len() == NCELLS && cells != old.to_vec() && cells != new.to_vec() && cells.iter().any(|&c| c != 0);
    format!("{} updates {} {}", if torn { "torn" } else { "consistent" }, completed, ret.replace('|', "/"))
}


// ------------------------------------------------------------------ C03: a reader that sleeps through many publications
/// `skip <g0> <n>`: a real reader attaches to a valid segment (generation g0, record 90) and takes a
/// snapshot; the real writer takes the segment over and publishes n records (1..n) back to back; the
/// reader then calls twice. No scheduler: real memory, sequential.
pub fn exec_skip(toks: &[&str]) -> String {
    let g0: u64 = toks[1].parse().unwrap();
    let n: u64 = toks[2].parse().unwrap();
    let path = format!("{}/skip-shm", scratch_dir());
    write_initial_file(&path, &format!("valid {} 90", g0));
    let c = CString::new(path.clone()).unwrap();
    let r = guarded(std::panic::AssertUnwindSafe(|| {
        let mut reader = ShmReader::new(&c).map_err(|_| "open-failed".to_string())?;
        let txt = |r: &mut ShmReader| match r.snapshot() { Ok(c) => cells_of_record(c).iter().map(|x| x.to_string()).collect::<Vec<_>>().join(","), Err(_) => "err".into() };
        let first = txt(&mut reader);
        let mut w = ShmWriter::new(std::path::Path::new(&path)).map_err(|_| "new-failed".to_string())?;
        for k in 1..=n { w.write(&record_of_cells(rec_cells(k))); }
        let second = txt(&mut reader);
        let third = txt(&mut reader);
        let gen = { use std::os::unix::fs::FileExt; let f = std::fs::File::open(&path).unwrap(); let mut b = [0u8; 2]; f.read_exact_at(&mut b, 14).unwrap(); u16::from_ne_bytes(b) };
        Ok::<String, String>(format!("first:{} second:{} third:{} gen:{}", first, second, third, gen))
    }));
    match r { Ok(Ok(s)) => s, Ok(Err(e)) => e, Err(()) => "panic".into() }
}

pub fn skip_grid(all: bool) -> Vec<String> {
    let mut v = Vec::new();
    let g0s: &[u64] = if all { &[2, 4, 30000, 65532, 65534, 65533, 1] } else { &[4, 65534, 65533] };
    let ns: &[u64] = if all { &[0, 1, 2, 3, 1000, 8191, 16383, 16384, 16385, 20000, 32766, 32767, 32768, 40000, 65534, 65535] } else { &[0, 1, 3, 16384, 20000, 32766, 32767, 32768, 40000] };
    for &g in g0s { for &n in ns { v.push(format!("skip {} {}", g, n)); } }
    v
}
