//! C07 / C08 / C09 / C10 / C13 / C12(daemon side): the real daemon code through the cfg-gated wrappers.
use crate::rng::Rng;
use crate::util::*;
use crate::vclock;
use crate::wire::{self, Trk};
use clock_bound_d::channels::new_channel_web;
use clock_bound_d::thread_manager::Context;
use clock_bound_d::{verif_chrony_poller, verif_hooks, verif_shm_writer, ChannelId, ChronyClockStatus, Message, PhcInfo};
use clock_bound_shm::{ClockErrorBound, ShmWrite};
use std::cell::RefCell;
use std::panic::{self, AssertUnwindSafe};
use std::rc::Rc;

fn cstatus(s: ChronyClockStatus) -> i64 {
    #[allow(unreachable_patterns)]
    match s { ChronyClockStatus::Unknown => 0, ChronyClockStatus::Synchronized => 1, ChronyClockStatus::FreeRunning => 2, _ => 99 }
}

fn trk_of(f: &[i64]) -> (Trk, i64) {
    // leap ref_ns now_ns offW dispW delayW intervalW
    (Trk { leap: f[0] as u16, ref_ns: f[1], off: f[3] as u32, disp: f[4] as u32, delay: f[5] as u32, interval: f[6] as u32, refid: 0, ip4: None, stratum: None }, f[2])
}

/// extract <leap> <ref_ns> <now_ns> <offW> <dispW> <delayW> <intervalW>  ->  <bound> <status>
pub fn exec_extract(toks: &[&str]) -> String {
    let f = parse_ints(&toks[1..]);
    let (t, now) = trk_of(&f);
    let tr = wire::tracking(&t);
    vclock::set_ns(vclock::REALTIME, now as i128);
    vclock::enable();
    let r = guarded(|| verif_shm_writer::extract_bound(tr));
    vclock::disable();
    match r { Ok((b, s)) => format!("{} {}", b, cstatus(s)), Err(_) => "panic".into() }
}

struct Sink(Rc<RefCell<Vec<ClockErrorBound>>>);
impl ShmWrite for Sink {
    fn write(&mut self, ceb: &ClockErrorBound) { self.0.borrow_mut().push(*ceb) }
}

/// upd <drift> ; <msg> ; <msg> ...   with msg =
///   d <leap> <ref_ns> <now_ns> <offW> <dispW> <delayW> <intervalW> <phc> <as_sec> <as_ns>
///   | nr_grace | nr | phc_grace | phc | noise
/// -> rec ... ; rec ... [; panic]        (one record per publication, through the real
///    `process_messages` loop fed by a real mpsc channel)
pub fn exec_upd(line: &str) -> String {
    let parts: Vec<&str> = line.split(';').map(|s| s.trim()).collect();
    let head: Vec<&str> = parts[0].split_whitespace().collect();
    let drift: u32 = head[1].parse::<i64>().unwrap() as u32;
    let (mut mboxes, dbox) = new_channel_web::<ChannelId, Message>(vec![ChannelId::ClockErrorBoundPoller, ChannelId::ShmWriter, ChannelId::MainThread]);
    let mbox = mboxes.get_mailbox(&ChannelId::ShmWriter).unwrap();
    let _main = mboxes.get_mailbox(&ChannelId::MainThread).unwrap();
    vclock::with(|s| s.script[vclock::REALTIME as usize].clear());
    let mut pairs: Vec<String> = Vec::new();
    for p in &parts[1..] {
        let t: Vec<&str> = p.split_whitespace().collect();
        if t.first() == Some(&"d") {
            let f = parse_ints(&t[1..]);
            let (trk, now) = trk_of(&f);
            // the bound and class the daemon derives from this very report (separate call)
            let tr = wire::tracking(&trk);
            vclock::set_ns(vclock::REALTIME, now as i128);
            vclock::enable();
            let r = guarded(|| verif_shm_writer::extract_bound(tr));
            vclock::disable();
            match r { Ok((b, s)) => pairs.push(format!("{} {}", b, cstatus(s))), Err(_) => pairs.push("0 0".into()) }
        }
    }
    for p in &parts[1..] {
        let t: Vec<&str> = p.split_whitespace().collect();
        if t.is_empty() { continue; }
        let m = match t[0] {
            "d" => {
                let f = parse_ints(&t[1..]);
                let (trk, now) = trk_of(&f);
                vclock::push_script(vclock::REALTIME, now.div_euclid(1_000_000_000), now.rem_euclid(1_000_000_000));
                Message::ClockErrorBoundData((wire::tracking(&trk), f[7], ts(f[8], f[9])))
            }
            "nr_grace" => Message::ChronyNotRespondingGracePeriod,
            "nr" => Message::ChronyNotResponding,
            "phc_grace" => Message::PhcErrorBoundRetrievalFailedGracePeriod,
            "phc" => Message::PhcErrorBoundRetrievalFailed,
            "noise" => Message::ThreadTerminate(ChannelId::ClockErrorBoundPoller),
            _ => panic!("bad msg {}", t[0]),
        };
        dbox.send(&ChannelId::ShmWriter, m).unwrap();
    }
    dbox.send(&ChannelId::ShmWriter, Message::ThreadAbort).unwrap();
    let store = Rc::new(RefCell::new(Vec::new()));
    let sink = Sink(store.clone());
    let ctx = Context { mbox, dbox: dbox.clone(), channel_id: ChannelId::ShmWriter };
    vclock::enable();
    let r = guarded(AssertUnwindSafe(|| verif_shm_writer::run_process_messages(ctx, sink, drift)));
    vclock::disable();
    vclock::with(|s| s.script[vclock::REALTIME as usize].clear());
    let mut out: Vec<String> = store.borrow().iter().map(record_text).collect();
    if r.is_err() { out.push("panic".into()); }
    format!("{} ## {}", if out.is_empty() { "none".to_string() } else { out.join(" ; ") }, pairs.join(" "))
}

// ---------------------------------------------------------------- generators

/// a chrony float word with a chosen exponent range and random 25-bit coefficient
pub fn cf(rng: &mut Rng, exp_lo: i64, exp_hi: i64, sign: i64) -> u32 {
    let e = rng.range(exp_lo, exp_hi);
    let c: i64 = match rng.below(6) {
        0 => 0,
        1 => rng.pick(&[1i64, 2, 3, (1 << 24) - 1, 1 << 23, (1 << 23) + 1]),
        _ => rng.range(1 << 20, (1 << 24) - 1),
    };
    let c = if sign < 0 { -c } else { c };
    (((e & 0x7f) as u32) << 25) | ((c as u32) & 0x01ff_ffff)
}

pub fn gen_trk(rng: &mut Rng) -> (Trk, i64) {
    let now: i64 = 1_700_000_000_000_000_000 + rng.range(0, 1_000_000_000_000_000);
    // offsets of both signs; magnitudes from sub-ns to seconds
    let sign = if rng.chance(1, 2) { -1 } else { 1 };
    let off = if rng.chance(1, 10) { 0 } else if rng.chance(1, 5) { cf(rng, 3, 31, sign) } else { cf(rng, -30, 2, sign) };
    let disp = if rng.chance(1, 12) { 0 } else { cf(rng, -34, 2, 1) };
    let delay = if rng.chance(1, 12) { 0 } else { cf(rng, -34, 2, 1) };
    // chronyd's own round numbers (its start-up defaults are root delay = root dispersion = 1.0 s): exactly representable
    // values, alone and in conjunction
    let round = [0x0480_0000u32, 0x0280_0000, 0x0680_0000, 0x0880_0000, 0x04C0_0000]; // 1.0, 0.5, 2.0, 4.0, 1.5 (coefficient 2^23 or 3*2^22, exponent field 2, 1, 3, 4, 2)
    let (disp, delay) = match rng.below(24) { 0 => { let w = rng.pick(&round); (w, w) }, 1 => (rng.pick(&round), delay), 2 => (disp, rng.pick(&round)), _ => (disp, delay) };
    let off = if rng.chance(1, 40) { rng.pick(&round) } else { off };
    let interval = match rng.below(8) {
        0 => 0,
        1 => cf(rng, 0, 12, -1),              // negative interval
        2 => rng.pick(&[0x0d00_0000u32 | (16 << 18), (5u32 << 25) | (0x81 << 17)]), // 16, 16.125
        3 => cf(rng, 30, 63, 1),              // huge
        4 => cf(rng, -5, 0, 1),               // < 1 s
        _ => cf(rng, 1, 12, 1),
    };
    let leap: u16 = match rng.below(8) { 0 => 3, 1 => rng.range(4, 65535) as u16, 2 => rng.pick(&[4u16, 255, 256, 65535]), _ => rng.range(0, 2) as u16 };
    // reference time: around now - 8*interval, future, or fresh
    let iv: f64 = wire::tracking(&Trk { interval, ..Default::default() }).last_update_interval.into();
    let thr = ((iv * 8.0) as u64).min(4_000_000_000) as i64;
    let age_ns: i64 = match rng.below(10) {
        0 => -rng.range(1, 2_000_000_000),                            // future
        1 => rng.pick(&[0i64, 1, -1]),
        2 | 3 | 4 => thr.saturating_mul(1_000_000_000).min(1_600_000_000_000_000_000) + rng.pick(&[-1i64, 0, 1, -1_000_000_000, 1_000_000_000, 999_999_999]),
        5 => rng.range(0, 1_000_000_000_000),
        _ => rng.range(0, 20_000_000_000),
    };
    let ref_ns = (now - age_ns).max(0);
    (Trk { leap, ref_ns, off, disp, delay, interval, refid: 0, ip4: None, stratum: None }, now)
}

pub fn gen_extract(rng: &mut Rng) -> String {
    let (t, now) = gen_trk(rng);
    format!("extract {} {} {} {} {} {} {}", t.leap, t.ref_ns, now, t.off, t.disp, t.delay, t.interval)
}

/// exhaustive over all 65536 leap codes x {fresh, stale, future}
pub fn leap_grid() -> Vec<String> {
    let now: i64 = 1_700_000_000_000_000_000;
    let iv = (4u32 << 25) | (1 << 23); // 8.0 s  -> threshold 64 s
    let mut v = Vec::new();
    for leap in 0..65536i64 {
        let ages: &[i64] = if leap < 16 { &[1_000_000_000i64, 64_000_000_000, 64_000_000_001, 100_000_000_000, -1] } else { &[1_000_000_000i64, 64_000_000_001] };
        for &age in ages {
            v.push(format!("extract {} {} {} {} {} {} {}", leap, now - age, now, 0x0200_0000u32 | 0x000a_0000, 0x0400_0000u32 | 0x00b0_0000, 0x0600_0000u32 | 0x00c0_0000, iv));
        }
    }
    v
}

thread_local! { static LAST_SYNC: std::cell::RefCell<Option<(Trk, i64)>> = std::cell::RefCell::new(None); }

fn msg_text(rng: &mut Rng, kind: u64, mono: &mut i64) -> String {
    *mono += rng.range(500_000_000, 3_000_000_000);
    // now and then: chronyd lost its sources, the reference time is frozen: the SAME report again,
    // 1000 s later (stale by then)
    if kind == 1 && rng.chance(1, 3) {
        if let Some((t, now)) = LAST_SYNC.with(|l| l.borrow().clone()) {
            let now2 = now + 1_000_000_000_000;
            return format!("d {} {} {} {} {} {} {} {} {} {}", t.leap, t.ref_ns, now2, t.off, t.disp, t.delay, t.interval, 0, *mono / 1_000_000_000, *mono % 1_000_000_000);
        }
    }
    match kind {
        0 | 1 | 2 => {
            // data; kind 0 = synchronised fresh, 1 = leap 3 / stale, 2 = random
            let (mut t, now) = gen_trk(rng);
            if kind == 0 { t.leap = rng.range(0, 2) as u16; t.ref_ns = now - rng.range(0, 1_000_000_000); t.interval = (5u32 << 25) | (1 << 23); LAST_SYNC.with(|l| *l.borrow_mut() = Some((t, now))); }
            if kind == 1 { if rng.chance(1, 2) { t.leap = 3 } else { t.leap = 1; t.ref_ns = now - 900_000_000_000; t.interval = (5u32 << 25) | (1 << 23); } }
            let phc = match rng.below(5) { 0 => rng.range(1, 100_000), 1 => rng.pick(&[1i64, 12345, 1 << 40]), _ => 0 };
            format!("d {} {} {} {} {} {} {} {} {} {}", t.leap, t.ref_ns, now, t.off, t.disp, t.delay, t.interval, phc, *mono / 1_000_000_000, *mono % 1_000_000_000)
        }
        3 => "nr_grace".into(),
        4 => "nr".into(),
        5 => "phc_grace".into(),
        6 => "phc".into(),
        _ => "noise".into(),
    }
}

pub fn gen_upd(rng: &mut Rng) -> String {
    LAST_SYNC.with(|l| *l.borrow_mut() = None);
    let drift = rng.pick(&[0i64, 1000, 50_000, 999_999_999, 4_294_967_295, 1]);
    let len = match rng.below(4) { 0 => rng.range(1, 4), 1 => rng.range(3, 12), 2 => rng.range(10, 60), _ => rng.range(3, 25) };
    let first_sync = match rng.below(4) { 0 => 0, 1 => len + 1, _ => rng.range(0, len) }; // early / never / late
    let mut mono: i64 = rng.range(0, 2_000_000_000_000);
    let mut parts = vec![format!("upd {}", drift)];
    let mut kind = rng.below(8);
    for i in 0..len {
        // run-lengths: keep the same kind with probability 1/2
        if !rng.chance(1, 2) { kind = rng.below(8); }
        let k = if i < first_sync { if kind == 0 { 1 } else if kind == 2 { 4 } else { kind } } else if i == first_sync { 0 } else { kind };
        // before the first sync, random data (kind 2) is replaced so that no sync sneaks in
        parts.push(msg_text(rng, k, &mut mono));
    }
    parts.join(" ; ")
}
