//! C15: the real `thread_manager::run` (three threads, real mpsc web, real Context drops) under
//! fault injection at the cfg-gated hook points. One scenario per process:
//!
//!   cbharness threads <fault point> <visit k> <panic|return> <none|ok> [lag=<point>:<ms>]
//!
//! * fault point: one of the hook points (`poller:start|top|query|send|wait`,
//!   `writer:start|opened|recv`): at its k-th visit the worker panics / returns from its entry
//!   function; or `writer:shmnew`: nothing is injected, but /run/clockbound is made a regular FILE so
//!   that the daemon's own `ShmWriter::new` fails and `panic!("Failed to create SHM writer")` runs.
//! * chrony: `none` = the query fails at once (socket absent), `ok` = a Tracking reply,
//!   `hang<ms>` = chronyd unresponsive: the query fails after <ms> (<= 3000, the real time-out).
//! * lag: the FIRST visit of that hook point sleeps <ms> first (to build a writer backlog, or to hold
//!   the poller in front of its send until the writer is gone).
//!
//! Output, one protocol line (no timestamps; elapsed time from the first death to the return of
//! `run` only as a bucket):
//!   thr <args> => returned <0|1> <fast|slow|never> ; <event tokens>
//! tokens: `vP:<pt>` / `vW:<pt>` hook visit, `fP:<pt>:<kind>` / `fW:<pt>:<kind>` injected fault,
//! `xP` / `xW` a panic of the daemon's own code on that worker (seen by the panic hook), `r` = `run`
//! returned. `run` uses the fixed path /var/run/clockbound/shm, so this refuses to start unless
//! /run/.cbharness_private exists (created by the wrapper inside `unshare -m` + tmpfs on /run).
//! The virtual clock stays disabled: this is real time.
use crate::wire::{self, Trk};
use clock_bound_d::verif_hooks;
use std::cell::Cell;
use std::sync::atomic::{AtomicUsize, Ordering};
use std::sync::{mpsc, Mutex};
use std::time::{Duration, Instant, SystemTime, UNIX_EPOCH};

const POINTS: [&str; 8] = [
    "poller:start", "poller:top", "poller:query", "poller:send", "poller:wait",
    "writer:start", "writer:opened", "writer:recv",
];
const MARKER: &str = "/run/.cbharness_private";
/// `fast` means: less than this between the first death and the return of `run`
const FAST_MS: u128 = 3000;
/// how long after the first death we wait for `run` to return
const WAIT_AFTER_DEATH: Duration = Duration::from_secs(10);

static LOG: Mutex<Vec<(Instant, String)>> = Mutex::new(Vec::new());
static FIRST_DEATH: Mutex<Option<Instant>> = Mutex::new(None);
static COUNTS: [AtomicUsize; 8] = [
    AtomicUsize::new(0), AtomicUsize::new(0), AtomicUsize::new(0), AtomicUsize::new(0),
    AtomicUsize::new(0), AtomicUsize::new(0), AtomicUsize::new(0), AtomicUsize::new(0),
];
thread_local! {
    static ROLE: Cell<char> = const { Cell::new('?') };
    static INJECTED: Cell<bool> = const { Cell::new(false) };
}

/// append to the global event log; `death`: also remember the time of the first death (same instant)
fn log(tok: String, death: bool) {
    let mut g = LOG.lock().unwrap_or_else(|e| e.into_inner());
    let now = Instant::now();
    if death {
        let mut d = FIRST_DEATH.lock().unwrap_or_else(|e| e.into_inner());
        if d.is_none() { *d = Some(now); }
    }
    g.push((now, tok));
}

fn short(point: &str) -> &str { point.split(':').nth(1).unwrap_or(point) }

pub fn run_scenario(args: &[String]) -> String {
    let req = format!("thr {}", args.join(" "));
    if args.len() < 4 { return format!("{} => bad-op", req); }
    let point: String = args[0].clone();
    let k: usize = args[1].parse().unwrap_or(0);
    let panic_kind = match args[2].as_str() { "panic" => true, "return" => false, _ => return format!("{} => bad-op", req) };
    // chrony: none = error at once; ok = Tracking reply at once; hang<ms> = no reply, error after <ms>
    let (chrony_ok, chrony_hang) = match args[3].as_str() {
        "ok" => (true, 0u64),
        "none" => (false, 0u64),
        h if h.starts_with("hang") => match h[4..].parse::<u64>() { Ok(ms) if ms <= 3000 => (false, ms), _ => return format!("{} => bad-op", req) },
        _ => return format!("{} => bad-op", req),
    };
    let mut lag: Option<(String, u64)> = None;
    for a in &args[4..] {
        if let Some(rest) = a.strip_prefix("lag=") {
            // lag=<point>:<ms>, e.g. lag=writer:recv:1500
            let mut it = rest.rsplitn(2, ':');
            let ms = it.next().and_then(|m| m.parse::<u64>().ok());
            let pt = it.next();
            match (pt, ms) {
                (Some(pt), Some(ms)) if POINTS.contains(&pt) => lag = Some((pt.to_string(), ms)),
                _ => return format!("{} => bad-op", req),
            }
        } else if a.starts_with("env=") {
            // state of the world outside the daemon, prepared by the wrapper script (tools/c15_run.py)
        } else { return format!("{} => bad-op", req); }
    }
    let shmnew = point == "writer:shmnew";
    if !shmnew && !POINTS.contains(&point.as_str()) { return format!("{} => bad-op", req); }
    if k == 0 || (shmnew && !(k == 1 && panic_kind)) { return format!("{} => bad-op", req); }
    if !std::path::Path::new(MARKER).exists() {
        return format!("{} => refused not-private", req);
    }
    if shmnew {
        // the daemon's own failure path: create_dir_all("/var/run/clockbound") fails on a regular file
        let _ = std::fs::remove_dir_all("/run/clockbound");
        std::fs::write("/run/clockbound", b"x").expect("create /run/clockbound as a file");
    }

    // panics: silent; a panic on a worker thread that we did not inject is the daemon's own
    std::panic::set_hook(Box::new(|info| {
        let role = ROLE.with(|r| r.get());
        if INJECTED.with(|i| i.get()) { return; }
        log(format!("x{}", role), true);
        if role == '?' || std::env::var_os("CB_THR_DEBUG").is_some() { eprintln!("panic on thread {}: {}", role, info); }
    }));

    // scripted chrony
    *verif_hooks::QUERY.lock().unwrap() = Some(Box::new(move |_req, _opts| {
        if !chrony_ok {
            if chrony_hang > 0 { std::thread::sleep(Duration::from_millis(chrony_hang)); }
            return Err(std::io::Error::new(std::io::ErrorKind::NotFound, "no chronyd socket"));
        }
        let now = SystemTime::now().duration_since(UNIX_EPOCH).unwrap().as_nanos() as i64;
        let t = Trk {
            leap: 0, ref_ns: now - 1_000_000_000,
            off: 0x0200_0000 | 0x000a_0000, disp: 0x0400_0000 | 0x00b0_0000, delay: 0x0600_0000 | 0x00c0_0000,
            interval: (5u32 << 25) | (1 << 23), refid: 0x7f00_0001, ip4: None, stratum: None,
        };
        Ok(wire::reply(&t))
    }));

    // hook points: count visits, inject the fault at the k-th visit of the chosen point
    let fault_point = point.clone();
    *verif_hooks::POINT.write().unwrap() = Some(Box::new(move |name: &'static str| -> bool {
        let role = if name.starts_with("poller:") { 'P' } else { 'W' };
        ROLE.with(|r| r.set(role));
        let idx = match POINTS.iter().position(|p| *p == name) { Some(i) => i, None => return false };
        let n = COUNTS[idx].fetch_add(1, Ordering::SeqCst) + 1;
        if let Some((lp, ms)) = &lag {
            if lp == name && n == 1 { std::thread::sleep(Duration::from_millis(*ms)); }
        }
        if name == fault_point && n == k {
            log(format!("f{}:{}:{}", role, short(name), if panic_kind { "panic" } else { "return" }), true);
            if panic_kind {
                INJECTED.with(|i| i.set(true));
                panic!("injected fault at {}", name);
            }
            return true;
        }
        log(format!("v{}:{}", role, short(name)), false);
        false
    }));

    let started = Instant::now();
    let (tx, rx) = mpsc::channel::<Instant>();
    std::thread::spawn(move || {
        clock_bound_d::thread_manager::run(1000, None);
        log("r".to_string(), false);
        let _ = tx.send(Instant::now());
    });

    // wait: until `run` returns, or 10 s after the first death, or (no death at all) k + 12 s
    let overall = Duration::from_secs(k as u64 + 12);
    let mut returned_at: Option<Instant> = None;
    loop {
        match rx.recv_timeout(Duration::from_millis(50)) {
            Ok(t) => { returned_at = Some(t); break; }
            Err(mpsc::RecvTimeoutError::Timeout) => {}
            Err(mpsc::RecvTimeoutError::Disconnected) => break, // helper thread died (run panicked)
        }
        let death = *FIRST_DEATH.lock().unwrap_or_else(|e| e.into_inner());
        match death {
            Some(d) if d.elapsed() > WAIT_AFTER_DEATH => break,
            None if started.elapsed() > overall => break,
            _ => {}
        }
    }
    let death = *FIRST_DEATH.lock().unwrap_or_else(|e| e.into_inner());
    let events: Vec<(Instant, String)> = LOG.lock().unwrap_or_else(|e| e.into_inner()).clone();
    let (ret, bucket) = match returned_at {
        Some(t) => {
            let ms = death.map(|d| t.saturating_duration_since(d).as_millis()).unwrap_or(0);
            if std::env::var_os("CB_THR_DEBUG").is_some() { eprintln!("elapsed after first death: {} ms", ms); }
            (1, if ms < FAST_MS { "fast" } else { "slow" })
        }
        None => (0, "never"),
    };
    if std::env::var_os("CB_THR_DEBUG").is_some() {
        for (t, e) in &events { eprintln!("{:>8} us  {}", t.duration_since(started).as_micros(), e); }
    }
    let toks: Vec<&str> = events.iter().map(|(_, e)| e.as_str()).collect();
    format!("{} => returned {} {} ; {}", req, ret, bucket, toks.join(" "))
}
