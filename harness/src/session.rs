//! `session`: one real segment (fresh file, real `ShmWriter`), one long-lived real `ClockBoundClient` and one
//! long-lived C context (`clockbound_open` in the C client process), driven through a sequence of operations.
//! Everything the single-call lines cannot see lives here: state a client carries from one call to the next
//! (cached snapshot, cached generation, anything a change may add), what `open` leaves in a context, calls
//! that land while the generation is odd / zero, records replaced between calls.
//!
//!   session <op> ; <op> ; ...
//!     w <as_s> <as_ns> <va_s> <va_ns> <bound> <drift> <status>   the writer publishes (real `ShmWriter::write`)
//!     g <u16> | v <u16>          the generation / version word of the file is overwritten (a writer that died
//!                                mid-update, a segment being re-initialised)
//!     x <u16> <7 record ints>    the path is unlinked and a NEW file (another inode: version 1, that generation, that
//!                                record) is put there — a runtime directory that was not preserved; the writer and every
//!                                attached client keep the old inode, later opens and pokes get the new one
//!     r                          the daemon shuts down in an orderly way (its `ShmWriter` is dropped) and a new one starts on the
//!                                same path (`ShmWriter::new`): a usable segment is taken over as it is
//!     o | co                     (re)open the Rust client / the C context
//!     q  <real_s> <real_ns> <mono_s> <mono_ns>    `ClockBoundClient::now()` on the long-lived client
//!     cq <real_s> <real_ns> <mono_s> <mono_ns>    `clockbound_now()` on the long-lived C context
//!     qn <N> <4 ints> | cqn <N> <4 ints>          the same call N times in a row (every-N-th-call behaviour): the last
//!                                answer, then `rep same` iff all N answers (and clock-read logs) were identical
//!     qw <4 ints> <u16> <7 record ints> | cqw …   the same call, and at the call's FIRST clock read the daemon publishes: the
//!                                generation word becomes the given (even) value and the record the given one.  A record published
//!                                after the clock was read must not be applied to that reading, so the answer is the one of `q`
//!   answer: one token group per op, joined by " ; ":
//!     w | p | o ok | o <error> | q <clock ids read, in order> : <result> | q closed      (same with co / cq)
use crate::rng::Rng;
use crate::util::*;
use crate::vclock;
use clock_bound_client::{ClockBoundClient, ClockBoundError, ClockBoundErrorKind};
use clock_bound_shm::{ShmWrite, ShmWriter};
use std::os::unix::fs::FileExt;
use std::panic::AssertUnwindSafe;

const NS: i64 = 1_000_000_000;

fn client_err_text(e: &ClockBoundError) -> String {
    let k = match e.kind {
        ClockBoundErrorKind::Syscall => "syscall",
        ClockBoundErrorKind::SegmentNotInitialized => "notinit",
        ClockBoundErrorKind::SegmentMalformed => "malformed",
        ClockBoundErrorKind::CausalityBreach => "causality",
        #[allow(unreachable_patterns)]
        _ => "other",
    };
    let d = if e.detail.is_empty() { "-".to_string() } else { e.detail.replace(' ', "_") };
    format!("err {} {} {}", k, e.errno.0, d)
}

/// the daemon publishes: record bytes, then the generation word
fn publish_raw(path: &str, img: &[u8]) {
    let fl = std::fs::OpenOptions::new().write(true).open(path).expect("publish: open");
    fl.write_all_at(&img[2..], 16).expect("publish: record");
    fl.write_all_at(&img[..2], 14).expect("publish: gen");
}
fn pub_image(f: &[i64]) -> Vec<u8> {
    let mut img = (f[4] as u16).to_ne_bytes().to_vec();
    img.extend_from_slice(&crate::header::record_bytes(&[f[5], f[6], f[7], f[8], f[9], f[10], 0, f[11]]));
    img
}

fn poke_u16(path: &str, off: u64, v: u16) {
    let f = std::fs::OpenOptions::new().write(true).open(path).expect("poke: open");
    f.write_all_at(&v.to_ne_bytes(), off).expect("poke: write");
}

pub fn exec(line: &str) -> String {
    let body = line.trim().strip_prefix("session").unwrap_or("").trim();
    let ops: Vec<&str> = body.split(';').map(|s| s.trim()).filter(|s| !s.is_empty()).collect();
    let path = format!("{}/session-shm", scratch_dir());
    let _ = std::fs::remove_file(&path);
    let p = path.clone();
    let w = guarded(AssertUnwindSafe(move || ShmWriter::new(std::path::Path::new(&p)).expect("writer")));
    let mut w = match w { Ok(w) => Some(w), Err(_) => return "writer-panic".into() };
    let mut client: Option<ClockBoundClient> = None;
    let mut c_open = false;
    let mut out: Vec<String> = Vec::new();
    for op in ops {
        let t: Vec<&str> = op.split_whitespace().collect();
        match t[0] {
            "w" => {
                let f = parse_ints(&t[1..]);
                let rec = mk_record(&[f[0], f[1], f[2], f[3], f[4], f[5], 0, f[6]]);
                let r = guarded(AssertUnwindSafe(|| w.as_mut().expect("writer").write(&rec)));
                out.push(if r.is_ok() { "w".into() } else { "w panic".into() });
            }
            "r" => {
                let old = w.take();
                let p = path.clone();
                let r = guarded(AssertUnwindSafe(move || { drop(old); ShmWriter::new(std::path::Path::new(&p)).expect("writer") }));
                match r {
                    Ok(nw) => {
                        w = Some(nw);
                        // the generation word the restarted daemon goes on from
                        let mut g = [0u8; 2];
                        let _ = std::fs::File::open(&path).and_then(|f| f.read_exact_at(&mut g, 14));
                        out.push(format!("r {}", u16::from_ne_bytes(g)));
                    }
                    Err(_) => return format!("{} ; r panic", out.join(" ; ")),
                }
            }
            "g" => { poke_u16(&path, 14, parse_ints(&t[1..])[0] as u16); out.push("p".into()); }
            "v" => { poke_u16(&path, 12, parse_ints(&t[1..])[0] as u16); out.push("p".into()); }
            "x" => {
                let f = parse_ints(&t[1..]);
                let _ = std::fs::remove_file(&path);
                let mut b = crate::header::header_bytes(0x414D5A4E, 0x43420200, 72, 1, f[0] as u16);
                b.extend_from_slice(&crate::header::record_bytes(&[f[1], f[2], f[3], f[4], f[5], f[6], 0, f[7]]));
                std::fs::write(&path, &b).expect("x: write");
                out.push("p".into());
            }
            "o" => {
                client = None;
                let p2 = path.clone();
                match guarded(move || ClockBoundClient::new_with_path(&p2)) {
                    Ok(Ok(c)) => { client = Some(c); out.push("o ok".into()); }
                    Ok(Err(e)) => out.push(format!("o {}", client_err_text(&e))),
                    Err(_) => out.push("o panic".into()),
                }
            }
            "co" => {
                let a = crate::header::c_request(&format!("sopen {}", path));
                c_open = a == "ok";
                out.push(format!("co {}", a));
            }
            "q" | "qn" | "qw" => {
                let reps = if t[0] == "qn" { parse_ints(&t[1..2])[0].max(1) } else { 1 };
                let f = parse_ints(if t[0] == "qn" { &t[2..] } else { &t[1..] });
                if t[0] == "qw" {
                    let img = pub_image(&f);
                    if client.is_some() {
                        let p3 = path.clone();
                        vclock::on_next_read(Box::new(move || publish_raw(&p3, &img)));
                    } else {
                        publish_raw(&path, &img);
                    }
                }
                let mut answers: Vec<String> = Vec::new();
                for _ in 0..reps {
                match client.as_mut() {
                    None => answers.push("q closed".into()),
                    Some(c) => {
                        // every clock the process can name reads 0 except the two the client is documented to use
                        for id in 0..16 { vclock::set(id, 0, 0); }
                        vclock::set(vclock::REALTIME, f[0], f[1]);
                        vclock::set(vclock::MONOTONIC_COARSE, f[2], f[3]);
                        vclock::clear_log();
                        vclock::enable();
                        let r = guarded(AssertUnwindSafe(|| c.now()));
                        vclock::disable();
                        if vclock::cancel_on_next_read() {
                            // the call read no clock at all: publish now, so that the session goes on from the same state
                            publish_raw(&path, &pub_image(&f));
                        }
                        let log: Vec<String> = vclock::take_log().iter().map(|x| x.to_string()).collect();
                        let ans = match r {
                            Ok(Ok(n)) => format!("ok {} {} {} {} {}", n.earliest.tv_sec(), n.earliest.tv_nsec(), n.latest.tv_sec(), n.latest.tv_nsec(), status_code(n.clock_status)),
                            Ok(Err(e)) => client_err_text(&e),
                            Err(_) => "panic".into(),
                        };
                        answers.push(format!("q {} : {}", log.join(" "), ans));
                    }
                }
                }
                let last = answers.last().cloned().unwrap();
                let same = answers.iter().all(|a| *a == last);
                out.push(last);
                if t[0] == "qn" { out.push(if same { "rep same".into() } else { format!("rep diff {}", answers.iter().filter(|a| **a != answers[answers.len() - 1]).count()) }); }
            }
            "cqw" => {
                let f = parse_ints(&t[1..]);
                let img = pub_image(&f);
                if !c_open {
                    publish_raw(&path, &img);
                    out.push("cq closed".into());
                } else {
                    let hex: String = img.iter().map(|b| format!("{:02x}", b)).collect();
                    let a = crate::header::c_request(&format!("snoww {} {} {} {} {} {}", f[0], f[1], f[2], f[3], path, hex));
                    if a.starts_with("crash") { c_open = false; }
                    out.push(format!("cq {}", a));
                }
            }
            "cq" | "cqn" => {
                let reps = if t[0] == "cqn" { parse_ints(&t[1..2])[0].max(1) } else { 1 };
                let args = if t[0] == "cqn" { &t[2..] } else { &t[1..] };
                let mut answers: Vec<String> = Vec::new();
                for _ in 0..reps {
                    if !c_open { answers.push("cq closed".into()); }
                    else {
                        let a = crate::header::c_request(&format!("snow {}", args.join(" ")));
                        if a.starts_with("crash") { c_open = false; }
                        answers.push(format!("cq {}", a));
                    }
                }
                let last = answers.last().cloned().unwrap();
                let same = answers.iter().all(|a| *a == last);
                out.push(last);
                if t[0] == "cqn" { out.push(if same { "rep same".into() } else { format!("rep diff {}", answers.iter().filter(|a| **a != answers[answers.len() - 1]).count()) }); }
            }
            _ => out.push("bad-op".into()),
        }
    }
    if c_open { let _ = crate::header::c_request("sclose"); }
    drop(client);
    drop(w);
    close_leaked(&path);
    out.join(" ; ")
}

// ------------------------------------------------------------------------------------------------ generator

fn add_ns(sec: i64, nsec: i64, d: i64) -> (i64, i64) {
    let t = sec as i128 * NS as i128 + nsec as i128 + d as i128;
    (t.div_euclid(NS as i128) as i64, t.rem_euclid(NS as i128) as i64)
}

struct Rec { as_s: i64, as_ns: i64, va_s: i64, va_ns: i64 }

fn gen_write(rng: &mut Rng, mono_now: &mut (i64, i64)) -> (String, Rec) {
    // the daemon stamps as_of with "now" and void_after 1000 s later (sometimes a shorter validity, so that the
    // thresholds are crossed inside one session); time moves on between publications
    *mono_now = add_ns(mono_now.0, mono_now.1, rng.pick(&[1i64, 1_000, NS, 3 * NS, 7 * NS, 900 * NS, 1200 * NS]));
    // one publication in eight is what a freshly (re)started daemon writes before chronyd has answered:
    // as-of 0/0, void-after 1000/0, bound 0, status Unknown (nothing was measured yet)
    if rng.chance(1, 8) {
        let drift = rng.pick(&[1000i64, 50_000]);
        return (format!("w 0 0 1000 0 0 {} 0", drift), Rec { as_s: 0, as_ns: 0, va_s: 1000, va_ns: 0 });
    }
    let (as_s, as_ns) = *mono_now;
    let (va_s, va_ns) = match rng.below(4) { 0 => add_ns(as_s, as_ns, rng.pick(&[5 * NS, 6 * NS, 8 * NS, 20 * NS])), _ => (as_s + 1000, 0) };
    let bound = rng.pick(&[0i64, 1, 10_000, 1_000_000, 123_456_789]);
    let drift = match rng.below(8) { 0 => rng.pick(&[1_000_000_000i64, 2_000_000_000, 4_294_967_295]), 1 => 0, _ => rng.pick(&[1i64, 1000, 50_000, 999_999_999]) };
    let status = match rng.below(6) { 0 => 0, 1 => 2, _ => 1 };
    (format!("w {} {} {} {} {} {} {}", as_s, as_ns, va_s, va_ns, bound, drift, status), Rec { as_s, as_ns, va_s, va_ns })
}

fn gen_query(rng: &mut Rng, rec: &Option<Rec>, mono_now: &mut (i64, i64), out: &mut Vec<String>) {
    // a reading aimed at the record's thresholds, or simply "a bit later than the last thing that happened"
    let m = match rec {
        Some(r) if rng.chance(2, 3) => {
            let va_off = ((r.va_s as i128 - r.as_s as i128) * NS as i128 + (r.va_ns as i128 - r.as_ns as i128)) as i64;
            let d = match rng.below(8) {
                0 => rng.pick(&[-1001i64, -1000, -999, 0, 1]),
                1 => 5 * NS + rng.range(-1, 1),
                2 => va_off + rng.range(-1, 1),
                3 => rng.range(0, 5 * NS),
                4 => rng.range(5 * NS, va_off.max(5 * NS + 1)),
                5 => va_off + rng.range(1, 2000 * NS),
                6 => -(rng.range(1, 3) << 32) - rng.range(0, 1000),
                _ => rng.range(0, 2 * NS),
            };
            add_ns(r.as_s, r.as_ns, d)
        }
        _ => add_ns(mono_now.0, mono_now.1, rng.range(0, 3 * NS)),
    };
    if (m.0, m.1) > *mono_now { *mono_now = m; }
    let real = (1_700_000_000 + rng.range(0, 1000), rng.pick(&[0i64, 1, 999_999_999, 123_456_789]));
    let times = format!("{} {} {} {}", real.0, real.1, m.0, m.1);
    // the Rust client and the C context are asked the same question (sometimes only one of them)
    match rng.below(6) { 0 => out.push(format!("q {}", times)), 1 => out.push(format!("cq {}", times)), _ => { out.push(format!("q {}", times)); out.push(format!("cq {}", times)); } }
}

pub fn gen_case(rng: &mut Rng) -> String {
    let mut ops: Vec<String> = Vec::new();
    let mut mono_now = (rng.pick(&[0i64, 5, 100_000, 2_000_000_000]), rng.pick(&[0i64, 999, 999_999_000]));
    let mut rec: Option<Rec> = None;
    let mut gen_clean = true; // the generation word has not been poked since the last publication
    // most sessions: publish, open, then a mixture
    if rng.chance(5, 6) { let (s, r) = gen_write(rng, &mut mono_now); ops.push(s); rec = Some(r); }
    if rng.chance(9, 10) { ops.push("o".into()); ops.push("co".into()); }
    let n = match rng.below(4) { 0 => rng.range(2, 4), 1 => rng.range(4, 9), _ => rng.range(6, 16) };
    for _ in 0..n {
        match rng.below(12) {
            0 | 1 | 2 => { let (s, r) = gen_write(rng, &mut mono_now); ops.push(s); rec = Some(r); gen_clean = true; }
            3 => { // writer dies mid-update: the generation stays odd (or is wiped to 0); later restored by the next `w`
                let g = match rng.below(4) { 0 => 0, 1 => rng.pick(&[1i64, 3, 65535]), _ => rng.range(0, 32767) * 2 + 1 };
                ops.push(format!("g {}", g)); gen_clean = false;
            }
            4 => if rng.chance(1, 3) { ops.push(format!("v {}", rng.pick(&[0i64, 0, 2, 65535]))); } else { ops.push("v 1".into()); },
            5 => ops.push(rng.pick(&["o", "co", "o"]).to_string()),
            6 if rng.chance(1, 3) => { // the file at the path is replaced by another inode (odd, zero or even generation)
                let g = match rng.below(3) { 0 => rng.range(0, 32767) * 2 + 1, 1 => 0, _ => rng.range(1, 32767) * 2 };
                ops.push(format!("x {} {} 0 {} 0 777 1000 1", g, mono_now.0 + 50, mono_now.0 + 1050));
            }
            7 if rng.chance(1, 3) => { // the same question many times in a row
                let mut tmp = Vec::new(); gen_query(rng, &rec, &mut mono_now, &mut tmp);
                let n = rng.pick(&[2i64, 17, 1023, 1024, 1025, 2100]);
                for q in tmp { let (k, rest) = q.split_once(' ').unwrap(); ops.push(format!("{}n {} {}", k, n, rest)); }
            }
            8 if rng.chance(1, 2) => { // the daemon publishes while the client is inside its call (at the call's first clock read)
                let mut tmp = Vec::new(); gen_query(rng, &rec, &mut mono_now, &mut tmp);
                let (ws, r) = gen_write(rng, &mut mono_now);
                let g = rng.range(1, 32767) * 2;
                for q in tmp { let (k, rest) = q.split_once(' ').unwrap(); ops.push(format!("{}w {} {} {}", k, rest, g, ws.strip_prefix("w ").unwrap())); }
                rec = Some(r); gen_clean = true;
            }
            9 if rng.chance(1, 2) && !ops.iter().any(|o| o.starts_with("x ")) => ops.push("r".into()),
            _ => gen_query(rng, &rec, &mut mono_now, &mut ops),
        }
    }
    let _ = gen_clean;
    // always end with a paired query
    gen_query(rng, &rec, &mut mono_now, &mut ops);
    format!("session {}", ops.join(" ; "))
}

/// scripted sessions: the situations the random generator should hit anyway, always present
pub fn grid() -> Vec<String> {
    let q = |m_s: i64, m_ns: i64| format!("q 1700000000 5 {} {} ; cq 1700000000 5 {} {}", m_s, m_ns, m_s, m_ns);
    let mut v = Vec::new();
    // the same record asked again and again while it ages through every threshold
    v.push(format!("session w 100 0 1100 0 10000 50000 1 ; o ; co ; {} ; {} ; {} ; {} ; {} ; {}", q(100, 500), q(104, 999_999_999), q(105, 0), q(1099, 999_999_999), q(1100, 0), q(5000, 0)));
    // one call inside the grace period, the next one long after void_after (nothing in between)
    v.push(format!("session w 100 0 1100 0 10000 50000 1 ; o ; co ; {} ; {}", q(101, 0), q(1200, 0)));
    v.push(format!("session w 100 0 106 0 10000 50000 1 ; o ; co ; {} ; {}", q(103, 0), q(106, 500_000_000)));
    // a record that becomes malformed: every call must say so, not only the first
    v.push(format!("session w 100 0 1100 0 10000 50000 1 ; o ; co ; {} ; w 101 0 1101 0 10000 2000000000 1 ; {} ; {} ; {}", q(100, 1), q(101, 1), q(101, 2), q(102, 0)));
    // causality breach on every call
    v.push(format!("session w 100 0 1100 0 10000 50000 1 ; o ; co ; {} ; {} ; {}", q(99, 0), q(99, 0), q(100, 0)));
    // open, then the writer dies mid-update (odd generation) before the first call: the context has nothing cached
    v.push(format!("session w 100 0 1100 0 10000 50000 1 ; o ; co ; g 3 ; {} ; {} ; w 102 0 1102 0 7 1000 2 ; {}", q(100, 5), q(100, 6), q(102, 5)));
    v.push(format!("session w 100 0 1100 0 10000 50000 1 ; o ; co ; g 0 ; {} ; v 0 ; {} ; v 1 ; w 102 0 1102 0 7 1000 2 ; {}", q(100, 5), q(100, 6), q(102, 5)));
    // first call sees a record, then the generation freezes odd: the cached record keeps ageing
    v.push(format!("session w 100 0 1100 0 10000 50000 1 ; o ; co ; {} ; g 5 ; {} ; {} ; {}", q(100, 5), q(104, 0), q(106, 0), q(1101, 0)));
    // publications between calls, the same generation value never reused; re-open in the middle
    v.push(format!("session w 100 0 1100 0 10000 50000 1 ; o ; co ; {} ; w 101 0 1101 0 20000 50000 2 ; {} ; o ; co ; {} ; w 102 0 1102 0 30000 50000 0 ; {} ; w 103 0 1103 0 5 1000 1 ; {}", q(100, 5), q(101, 5), q(101, 6), q(102, 6), q(103, 7)));
    // the path gets a new inode (frozen mid-update: odd generation) under attached clients, which are then asked
    // thousands of times: they stay on the segment they mapped and keep (and age) what they had
    v.push(format!("session w 100 0 1100 0 10000 50000 1 ; o ; co ; {} ; x 3 200 0 1200 0 777 1000 1 ; qn 2100 1700000000 5 101 0 ; cqn 2100 1700000000 5 101 0 ; {} ; w 102 0 1102 0 9 1000 2 ; qn 1100 1700000000 5 102 5 ; cqn 1100 1700000000 5 102 5", q(100, 5), q(101, 1)));
    v.push(format!("session w 100 0 1100 0 10000 50000 1 ; o ; co ; {} ; x 8 200 0 1200 0 777 1000 1 ; qn 2100 1700000000 5 101 0 ; cqn 2100 1700000000 5 101 0 ; o ; co ; {}", q(100, 5), q(201, 0)));
    // a daemon restart while chronyd is away: the restarted daemon's first publications are the "nothing measured
    // yet" record; long-lived clients must take it (Unknown at once, and still Unknown later)
    v.push(format!("session w 100 0 1100 0 10000 50000 1 ; o ; co ; {} ; w 0 0 1000 0 0 50000 0 ; {} ; {} ; w 0 0 1000 0 0 50000 0 ; {} ; w 108 0 1108 0 20000 50000 1 ; {}", q(100, 5), q(101, 0), q(106, 300_000_000), q(107, 0), q(108, 5)));
    // the daemon publishes a much tighter record while a client is inside now(), after the client's clock was read (the system clock
    // was just stepped: the old reading is only covered by the OLD record's bound): the answer must come from the old record
    v.push(format!("session w 100 0 1100 0 12000000 50000 1 ; o ; co ; {} ; qw 1700000000 5 100 500 40 101 0 1101 0 50000 50000 1 ; cqw 1700000000 5 100 500 42 101 0 1101 0 50000 50000 1 ; {}", q(100, 5), q(101, 5)));
    v.push(format!("session w 100 0 1100 0 12000000 50000 1 ; o ; co ; qw 1700000000 5 100 500 40 101 0 1101 0 50000 50000 1 ; cqw 1700000000 5 100 500 42 101 0 1101 0 50000 50000 2 ; {} ; w 102 0 1102 0 7 1000 1 ; {}", q(101, 5), q(102, 5)));
    // an orderly restart of the daemon between calls (also over a segment whose last update was cut short): the segment is taken over
    // as it is, attached clients and new ones go on seeing the latest record, the generation carries on
    v.push(format!("session w 100 0 1100 0 10000 50000 1 ; o ; co ; {} ; r ; {} ; o ; co ; {} ; w 102 0 1102 0 7 1000 2 ; {} ; r ; r ; {}", q(100, 5), q(101, 5), q(101, 6), q(102, 5), q(103, 5)));
    v.push(format!("session w 100 0 1100 0 10000 50000 1 ; w 101 0 1101 0 20000 50000 1 ; o ; co ; {} ; g 5 ; r ; {} ; w 102 0 1102 0 7 1000 2 ; {} ; r ; w 103 0 1103 0 8 1000 1 ; {}", q(101, 5), q(101, 6), q(102, 5), q(103, 5)));
    v.push(format!("session w 100 0 1100 0 10000 50000 1 ; o ; co ; {} ; w 101 0 1101 0 20000 50000 0 ; r ; {} ; w 102 0 1102 0 7 1000 1 ; w 103 0 1103 0 7 1000 1 ; r ; {}", q(100, 5), q(101, 6), q(103, 5)));
    // no publication yet: open must fail (generation 0)
    v.push(format!("session o ; co ; {} ; w 100 0 1100 0 10000 50000 1 ; o ; co ; {}", q(100, 5), q(100, 6)));
    v
}
