//! Shared-memory side: C11 (generation protocol observed on the real `ShmWriter::write`).
use crate::util::*;
use clock_bound_shm::verif_shim::{self, Hooks};
use clock_bound_shm::{ShmWrite, ShmWriter};
use std::sync::atomic::{AtomicU64, Ordering as O};

static INFLIGHT: AtomicU64 = AtomicU64::new(u64::MAX);

fn h_load(_a: usize, _w: u8, _o: O, real: u64) -> u64 { real }
fn h_store(_a: usize, _w: u8, _o: O, _v: u64) {}
fn h_fence(_o: O) {}
fn h_point(_n: &'static str) {}
fn h_data_read(_a: usize, _b: &mut [u8]) {}
/// record copy begins: observe the generation value in the segment right now (header is 16 bytes,
/// generation at offset 14, record at offset 16)
fn h_data_write_observe(dst: usize, _src: &[u8]) {
    let g = unsafe { std::ptr::read_volatile((dst - 2) as *const u16) };
    INFLIGHT.store(g as u64, O::SeqCst);
}

pub fn install_observe() {
    *verif_shim::HOOKS.write().unwrap() = Some(Hooks { load: h_load, store: h_store, fence: h_fence, data_write: h_data_write_observe, data_read: h_data_read, point: h_point });
}
pub fn uninstall() { *verif_shim::HOOKS.write().unwrap() = None; }

fn poke_gen(path: &str, g: u16) {
    use std::os::unix::fs::FileExt;
    let f = std::fs::OpenOptions::new().write(true).open(path).unwrap();
    f.write_all_at(&g.to_ne_bytes(), 14).unwrap();
}
fn peek_gen(path: &str) -> u16 {
    use std::os::unix::fs::FileExt;
    let f = std::fs::File::open(path).unwrap();
    let mut b = [0u8; 2];
    f.read_exact_at(&mut b, 14).unwrap();
    u16::from_ne_bytes(b)
}

/// gen <start>  ->  <in-flight> <final>     (one real `write` on a segment whose generation is <start>)
pub fn exec_gen(toks: &[&str]) -> String {
    let start: u16 = toks[1].parse::<i64>().unwrap() as u16;
    let path = format!("{}/gen-shm", scratch_dir());
    let _ = std::fs::remove_file(&path);
    let r = guarded(|| {
        let mut w = ShmWriter::new(std::path::Path::new(&path)).expect("writer");
        poke_gen(&path, start);
        install_observe();
        INFLIGHT.store(u64::MAX, O::SeqCst);
        let rec = mk_record(&[1, 2, 1001, 0, 123, 1000, 0, 1]);
        w.write(&rec);
        uninstall();
        let fin = peek_gen(&path);
        format!("{} {}", INFLIGHT.load(O::SeqCst), fin)
    });
    uninstall();
    close_leaked(&path);
    r.unwrap_or_else(|_| "panic".into())
}

/// all 65536 start values, on one writer (much faster than re-creating the segment each time)
pub fn gen_all(mut emit: impl FnMut(String, String)) {
    let path = format!("{}/gen-shm", scratch_dir());
    let _ = std::fs::remove_file(&path);
    let mut w = ShmWriter::new(std::path::Path::new(&path)).expect("writer");
    install_observe();
    let rec = mk_record(&[1, 2, 1001, 0, 123, 1000, 0, 1]);
    for start in 0..65536u32 {
        poke_gen(&path, start as u16);
        INFLIGHT.store(u64::MAX, O::SeqCst);
        let r = guarded(std::panic::AssertUnwindSafe(|| w.write(&rec)));
        let ans = match r { Ok(()) => format!("{} {}", INFLIGHT.load(O::SeqCst), peek_gen(&path)), Err(_) => "panic".into() };
        emit(format!("gen {}", start), ans);
    }
    uninstall();
}
