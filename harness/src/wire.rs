//! Build chrony `Tracking` replies from wire bytes, so that every 32-bit float pattern is reachable
//! (ChronyFloat's field is private; deserialisation is the public way in).
use bytes::Buf;
use chrony_candm::reply::{Reply, ReplyBody, Tracking};

#[derive(Clone, Copy, Debug, Default)]
pub struct Trk {
    pub leap: u16,
    pub ref_ns: i64, // ns since epoch, >= 0
    pub off: u32,
    pub disp: u32,
    pub delay: u32,
    pub interval: u32,
    pub refid: u32,
    /// source address of the report as an IPv4 word (None = unspecified, what chronyd sends for refclocks)
    pub ip4: Option<u32>,
    /// stratum chronyd reports for itself (None = 1); the daemon never reads it
    pub stratum: Option<u16>,
}

pub fn reply_bytes(t: &Trk, reply_code: u16) -> Vec<u8> {
    let mut b = Vec::with_capacity(28 + 76);
    b.extend_from_slice(&[6, 2, 0, 0]);
    b.extend_from_slice(&33u16.to_be_bytes()); // cmd (tracking request = 33)
    b.extend_from_slice(&reply_code.to_be_bytes()); // reply code (5 = tracking)
    b.extend_from_slice(&0u16.to_be_bytes()); // status success
    b.extend_from_slice(&[0; 6]);
    b.extend_from_slice(&0u32.to_be_bytes()); // sequence
    b.extend_from_slice(&[0; 8]);
    // body
    b.extend_from_slice(&t.refid.to_be_bytes());
    match t.ip4 {
        None => { b.extend_from_slice(&[0; 16]); b.extend_from_slice(&0u16.to_be_bytes()); } // family unspec
        Some(a) => { b.extend_from_slice(&a.to_be_bytes()); b.extend_from_slice(&[0; 12]); b.extend_from_slice(&1u16.to_be_bytes()); } // IPADDR_INET4
    }
    b.extend_from_slice(&0u16.to_be_bytes());
    b.extend_from_slice(&t.stratum.unwrap_or(1).to_be_bytes()); // stratum
    b.extend_from_slice(&t.leap.to_be_bytes());
    let sec = (t.ref_ns / 1_000_000_000) as u64;
    let nsec = (t.ref_ns % 1_000_000_000) as u32;
    b.extend_from_slice(&((sec >> 32) as i32).to_be_bytes());
    b.extend_from_slice(&((sec & 0xffff_ffff) as u32).to_be_bytes());
    b.extend_from_slice(&nsec.to_be_bytes());
    b.extend_from_slice(&t.off.to_be_bytes()); // current_correction
    b.extend_from_slice(&0u32.to_be_bytes()); // last_offset
    b.extend_from_slice(&0u32.to_be_bytes()); // rms_offset
    b.extend_from_slice(&0u32.to_be_bytes()); // freq_ppm
    b.extend_from_slice(&0u32.to_be_bytes()); // resid_freq_ppm
    b.extend_from_slice(&0u32.to_be_bytes()); // skew_ppm
    b.extend_from_slice(&t.delay.to_be_bytes()); // root_delay
    b.extend_from_slice(&t.disp.to_be_bytes()); // root_dispersion
    b.extend_from_slice(&t.interval.to_be_bytes()); // last_update_interval
    b
}

pub fn reply(t: &Trk) -> Reply {
    let bytes = reply_bytes(t, 5);
    let mut buf = &bytes[..];
    let r = Reply::deserialize(&mut buf).expect("tracking reply deserialises");
    assert_eq!(buf.remaining(), 0);
    r
}

/// a well-formed reply that is not Tracking (reply code 1 = Null)
pub fn other_reply() -> Reply {
    let mut b = reply_bytes(&Trk::default(), 1);
    b.truncate(28);
    let mut buf = &b[..];
    Reply::deserialize(&mut buf).expect("null reply deserialises")
}

pub fn tracking(t: &Trk) -> Tracking {
    match reply(t).body {
        ReplyBody::Tracking(b) => b,
        _ => panic!("not tracking"),
    }
}

/// self-test of the hard-coded layout against chrony-candm's own serialiser
pub fn self_test() {
    let t = Trk { leap: 0xABCD, ref_ns: 1_700_000_123_456_789_012, off: 0xee562947, disp: 0x0893362c, delay: 0x026bb816, interval: 0x0b000000, refid: 0x50484330, ip4: None, stratum: None };
    let tr = tracking(&t);
    assert_eq!(tr.leap_status, 0xABCD);
    assert_eq!(tr.ref_id, 0x50484330);
    let d = tr.ref_time.duration_since(std::time::UNIX_EPOCH).unwrap();
    assert_eq!(d.as_nanos() as i64, t.ref_ns);
    // re-serialise and compare the float words
    let r = reply(&t);
    let mut out = Vec::new();
    r.serialize(&mut out);
    assert_eq!(out[28..], reply_bytes(&t, 5)[28..]);
    let f: f64 = tr.current_correction.into();
    assert_eq!(f, 5646663.0 / 17179869184.0);
}
