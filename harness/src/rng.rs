//! One PRNG state per run (splitmix64): every random choice derives from VERIF_SEED.
pub struct Rng(pub u64);
impl Rng {
    pub fn new(seed: u64) -> Self { Rng(seed.wrapping_mul(0x9E3779B97F4A7C15) ^ 0xD1B54A32D192ED03) }
    pub fn next(&mut self) -> u64 {
        self.0 = self.0.wrapping_add(0x9E3779B97F4A7C15);
        let mut z = self.0;
        z = (z ^ (z >> 30)).wrapping_mul(0xBF58476D1CE4E5B9);
        z = (z ^ (z >> 27)).wrapping_mul(0x94D049BB133111EB);
        z ^ (z >> 31)
    }
    pub fn below(&mut self, n: u64) -> u64 { if n == 0 { 0 } else { self.next() % n } }
    pub fn range(&mut self, lo: i64, hi: i64) -> i64 {
        // inclusive
        let span = (hi as i128 - lo as i128 + 1) as u128;
        (lo as i128 + (self.next() as u128 % span) as i128) as i64
    }
    pub fn pick<T: Copy>(&mut self, xs: &[T]) -> T { xs[self.below(xs.len() as u64) as usize] }
    pub fn chance(&mut self, num: u64, den: u64) -> bool { self.below(den) < num }
}
