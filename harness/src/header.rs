//! C16 / C17: the segment FILE format, open / repair logic and the C ABI, on the real code.
//!
//! Line kinds (answers are what the real code did):
//!   open <missing|dir|file HEX>
//!        => <ShmReader::new> ; <ClockBoundClient::new_with_path> ; <C clockbound_open>
//!           ShmReader : ok | err notinit | err malformed | err sys <errno> <origin_>
//!           clients   : ok | err <syscall|notinit|malformed|causality> <errno> <detail_|->
//!   seg <missing|dir|file HEX> <as_s as_ns va_s va_ns bound drift reserved status>
//!        => <recreated 0|1> <inode_same 0|1> <HEX of the file after ShmWriter::new + write> <fresh reader: rec … | short | err …>
//!         | err io <errno>                       (ShmWriter::new failed)
//!   snap file HEX      => <fresh ShmReader::new + snapshot(): rec … | short | err …>   (static file, no writer)
//!   sandwich <8 record ints> <real_s> <real_ns> <mono_s> <mono_ns>
//!        => <ClockBoundClient::now()> ; <C clockbound_now()>      on one segment written by ShmWriter
//!   cabi => <sizeof/offsetof/enum values of clockbound.h as compiled by cc>
//! HEX is lower-case, two digits per byte, `-` for the empty file.
use crate::rng::Rng;
use crate::util::*;
use crate::vclock;
use clock_bound_client::{ClockBoundClient, ClockBoundError, ClockBoundErrorKind};
use clock_bound_shm::verif_shim::{self, Hooks};
use clock_bound_shm::{ShmReader, ShmWrite, ShmWriter};
use std::sync::atomic::{AtomicBool, Ordering as O};
use std::ffi::CString;
use std::io::{BufRead, BufReader, Write};
use std::os::unix::fs::MetadataExt;
use std::panic::AssertUnwindSafe;
use std::process::{Child, ChildStdin, ChildStdout, Command, Stdio};
use std::sync::Mutex;

pub const SEG: usize = 72;
const MAGIC0: u32 = 0x414D5A4E;
const MAGIC1: u32 = 0x43420200;

// ---------------------------------------------------------------------------------------- helpers

fn hex(b: &[u8]) -> String {
    if b.is_empty() { return "-".into(); }
    let mut s = String::with_capacity(b.len() * 2);
    for x in b { s.push_str(&format!("{:02x}", x)); }
    s
}
fn unhex(s: &str) -> Vec<u8> {
    if s == "-" { return Vec::new(); }
    assert!(s.len() % 2 == 0, "odd hex length");
    (0..s.len() / 2).map(|i| u8::from_str_radix(&s[2 * i..2 * i + 2], 16).expect("bad hex")).collect()
}

#[derive(Clone)]
pub enum Prior { Missing, Dir, File(Vec<u8>) }

impl Prior {
    fn text(&self) -> String {
        match self { Prior::Missing => "missing".into(), Prior::Dir => "dir".into(), Prior::File(b) => format!("file {}", hex(b)) }
    }
}

/// parses `missing | dir | file HEX` at the head of `toks`; returns the rest
fn parse_prior<'a>(toks: &'a [&'a str]) -> (Prior, &'a [&'a str]) {
    match toks[0] {
        "missing" => (Prior::Missing, &toks[1..]),
        "dir" => (Prior::Dir, &toks[1..]),
        "file" => (Prior::File(unhex(toks[1])), &toks[2..]),
        x => panic!("bad prior {}", x),
    }
}

fn remove_path(path: &str) {
    match std::fs::symlink_metadata(path) {
        Ok(m) if m.is_dir() => std::fs::remove_dir_all(path).unwrap(),
        Ok(_) => std::fs::remove_file(path).unwrap(),
        Err(_) => (),
    }
}

/// puts the path into the prior state
fn prepare(path: &str, p: &Prior) {
    remove_path(path);
    match p {
        Prior::Missing => (),
        Prior::Dir => std::fs::create_dir(path).unwrap(),
        Prior::File(b) => std::fs::write(path, b).unwrap(),
    }
}

fn seg_path() -> String { format!("{}/hdr-shm", scratch_dir()) }

/// `ShmWriter::new` leaks the descriptor it maps from (nix::fcntl::open, never closed on success).
/// The descriptor number it will get is the lowest free one; remember it and close it afterwards so
/// that long runs do not exhaust the table.
fn lowest_free_fd() -> i32 {
    unsafe { let fd = libc::dup(0); libc::close(fd); fd }
}
fn close_if_open(fd: i32) {
    unsafe { if libc::fcntl(fd, libc::F_GETFD) != -1 { libc::close(fd); } }
}

fn client_err_text(e: &ClockBoundError) -> String {
    let k = match e.kind {
        ClockBoundErrorKind::Syscall => "syscall",
        ClockBoundErrorKind::SegmentNotInitialized => "notinit",
        ClockBoundErrorKind::SegmentMalformed => "malformed",
        ClockBoundErrorKind::CausalityBreach => "causality",
        #[allow(unreachable_patterns)]
        _ => "other",
    };
    let d = if e.detail.is_empty() { "-".to_string() } else { e.detail.replace(' ', "_") };
    format!("err {} {} {}", k, e.errno.0, d)
}

// ---------------------------------------------------------------------------------------- C client

struct CProc { child: Child, stdin: ChildStdin, stdout: BufReader<ChildStdout> }
static CPROC: Mutex<Option<CProc>> = Mutex::new(None);

fn cclient_path() -> String {
    if let Ok(p) = std::env::var("CBH_CCLIENT") { return p; }
    let exe = std::env::current_exe().expect("current_exe");
    exe.parent().unwrap().join("cclient").to_string_lossy().into_owned()
}

/// one request to the C client; `crash <signal|exit code>` if the process died on it
pub fn c_request(req: &str) -> String { c_request_bytes(req.as_bytes()) }

/// the same with a request that need not be UTF-8 (a path with arbitrary bytes)
pub fn c_request_bytes(req: &[u8]) -> String {
    let mut g = CPROC.lock().unwrap();
    if g.is_none() {
        let p = cclient_path();
        let mut child = match Command::new(&p).stdin(Stdio::piped()).stdout(Stdio::piped()).stderr(Stdio::null()).spawn() {
            Ok(c) => c,
            Err(e) => return format!("c-unavailable {}", e.raw_os_error().unwrap_or(-1)),
        };
        let stdin = child.stdin.take().unwrap();
        let stdout = BufReader::new(child.stdout.take().unwrap());
        *g = Some(CProc { child, stdin, stdout });
    }
    let pr = g.as_mut().unwrap();
    let sent = pr.stdin.write_all(req).and_then(|_| pr.stdin.write_all(b"\n")).and_then(|_| pr.stdin.flush());
    let mut ans = String::new();
    let got = if sent.is_ok() { pr.stdout.read_line(&mut ans).unwrap_or(0) } else { 0 };
    if got == 0 {
        use std::os::unix::process::ExitStatusExt;
        let mut dead = g.take().unwrap();
        drop(dead.stdin);
        let st = dead.child.wait().ok();
        return match st {
            Some(s) => match s.signal() { Some(sig) => format!("crash {}", sig), None => format!("crash exit{}", s.code().unwrap_or(-1)) },
            None => "crash ?".into(),
        };
    }
    ans.trim().to_string()
}

// ---------------------------------------------------------------------------------------- open

/// number of mappings and of open descriptors of this process
fn res_counts() -> (usize, usize) {
    let maps = std::fs::read_to_string("/proc/self/maps").map(|s| s.lines().count()).unwrap_or(0);
    let fds = std::fs::read_dir("/proc/self/fd").map(|d| d.count()).unwrap_or(0);
    (maps, fds)
}

/// runs `f` in a forked child that has dropped to uid/gid 65534 with RLIMIT_MEMLOCK = 0 (an ordinary,
/// unprivileged client process) and returns the text it produced; `crash <status>` if the child died
pub fn in_unprivileged_child(f: impl FnOnce() -> String) -> String {
    use std::io::Read;
    use std::os::unix::io::FromRawFd;
    let mut fds = [0i32; 2];
    unsafe { if libc::pipe(fds.as_mut_ptr()) != 0 { return "pipe-failed".into(); } }
    let pid = unsafe { libc::fork() };
    if pid < 0 { return "fork-failed".into(); }
    if pid == 0 {
        unsafe {
            libc::close(fds[0]);
            let lim = libc::rlimit { rlim_cur: 0, rlim_max: 0 };
            libc::setrlimit(libc::RLIMIT_MEMLOCK, &lim);
            libc::setgroups(0, std::ptr::null());
            libc::setgid(65534);
            libc::setuid(65534);
        }
        let t = match guarded(std::panic::AssertUnwindSafe(f)) { Ok(t) => t, Err(_) => "panic".to_string() };
        unsafe { libc::write(fds[1], t.as_ptr() as *const libc::c_void, t.len()); libc::_exit(0); }
    }
    unsafe { libc::close(fds[1]); }
    let mut out = String::new();
    let mut rd = unsafe { std::fs::File::from_raw_fd(fds[0]) };
    let _ = rd.read_to_string(&mut out);
    let mut st = 0i32;
    unsafe { libc::waitpid(pid, &mut st, 0); }
    if out.is_empty() { format!("crash {}", st) } else { out }
}

/// `open` / `open0` / `openu`: the latter runs the two Rust opens with descriptor 0 closed (a client or daemon
/// started without stdin: `open(2)` then legitimately returns 0)
fn exec_open(toks: &[&str]) -> String {
    let nofd0 = toks[0] == "open0";
    if toks[0] == "openb" {
        // the segment's name is not valid UTF-8 (a Latin-1 directory, a file name from another locale): a path is
        // bytes to open(2), and so it is to ShmReader::new (a &CStr) and to clockbound_open (a const char *). The
        // Rust client takes a &str: it gets a UTF-8 symbolic link to the same file.
        use std::os::unix::ffi::OsStringExt;
        let (prior, _) = parse_prior(&toks[1..]);
        let mut raw = format!("{}/hdr-caf", scratch_dir()).into_bytes();
        raw.extend_from_slice(b"\xE9-\xFF\xFE.shm");
        let os: std::ffi::OsString = std::ffi::OsString::from_vec(raw.clone());
        let pb = std::path::PathBuf::from(os);
        let _ = std::fs::remove_file(&pb); let _ = std::fs::remove_dir_all(&pb);
        match &prior { Prior::Missing => (), Prior::Dir => std::fs::create_dir(&pb).unwrap(), Prior::File(b) => std::fs::write(&pb, b).unwrap() }
        let link = format!("{}/hdr-link", scratch_dir());
        let _ = std::fs::remove_file(&link);
        std::os::unix::fs::symlink(&pb, &link).unwrap();
        let cpath = CString::new(raw.clone()).unwrap();
        let r1 = match guarded(|| ShmReader::new(cpath.as_c_str()).map(|_| ())) { Ok(Ok(())) => "ok".to_string(), Ok(Err(e)) => shm_err_text(&e), Err(_) => "panic".into() };
        let l2 = link.clone();
        let r2 = match guarded(move || ClockBoundClient::new_with_path(&l2).map(|_| ())) { Ok(Ok(())) => "ok".to_string(), Ok(Err(e)) => client_err_text(&e), Err(_) => "panic".into() };
        let mut req = b"copen ".to_vec(); req.extend_from_slice(&raw);
        let r3 = c_request_bytes(&req);
        let _ = std::fs::remove_file(&link); let _ = std::fs::remove_file(&pb); let _ = std::fs::remove_dir_all(&pb);
        return format!("{} ; {} ; {}", r1, r2, r3);
    }
    if toks[0] == "openu" {
        // the two Rust opens as an unprivileged process without any lockable memory
        let (prior, _) = parse_prior(&toks[1..]);
        let path = seg_path();
        prepare(&path, &prior);
        let cpath = CString::new(path.clone()).unwrap();
        let r1 = in_unprivileged_child(|| match ShmReader::new(cpath.as_c_str()).map(|_| ()) { Ok(()) => "ok".to_string(), Err(e) => shm_err_text(&e) });
        let p2 = path.clone();
        let r2 = in_unprivileged_child(move || match ClockBoundClient::new_with_path(&p2).map(|_| ()) { Ok(()) => "ok".to_string(), Err(e) => client_err_text(&e) });
        let r3 = c_request(&format!("copen {}", path));
        return format!("{} ; {} ; {}", r1, r2, r3);
    }
    let (prior, _) = parse_prior(&toks[1..]);
    let path = seg_path();
    prepare(&path, &prior);
    let cpath = CString::new(path.clone()).unwrap();
    let saved = if nofd0 { unsafe { let s = libc::dup(0); libc::close(0); s } } else { -1 };
    let mut r1 = match guarded(|| ShmReader::new(cpath.as_c_str()).map(|_| ())) {
        Ok(Ok(())) => "ok".to_string(),
        Ok(Err(e)) => shm_err_text(&e),
        Err(_) => "panic".into(),
    };
    // a FAILED open must not keep anything either: eight more attempts leave the process's mappings and descriptors
    // where they were. If they grow, the attempts go on (a long-running client that probes for the daemon once a
    // second) until the answer changes — the file is the same, so must be the error — or 100 000 were made.
    if r1.starts_with("err") {
        let (m0, f0) = res_counts();
        for _ in 0..8 { let _ = guarded(|| ShmReader::new(cpath.as_c_str()).map(|_| ())); }
        let (m1, f1) = res_counts();
        if m1 >= m0 + 4 || f1 >= f0 + 4 {
            // in a child process: whatever is leaked (descriptors, mappings) dies with it
            let first = r1.clone();
            let first2 = first.clone();
            let cp = cpath.clone();
            let t = crate::util::in_child(crate::util::watchdog_limit().saturating_sub(8).max(10), move || {
                for _ in 0..100_000 {
                    let a = match guarded(|| ShmReader::new(cp.as_c_str()).map(|_| ())) { Ok(Ok(())) => "ok".to_string(), Ok(Err(e)) => shm_err_text(&e), Err(_) => "panic".into() };
                    if a != first2 { return format!("{} after-many-opens", a); }
                }
                "same".to_string()
            });
            r1 = if t == "same" || t == "timeout" || t.starts_with("crash") { format!("{} leak {} {}", first, m1 - m0, f1 - f0) } else { t };
        }
    }
    let p2 = path.clone();
    let p2b = path.clone();
    let r2 = match guarded(move || ClockBoundClient::new_with_path(&p2).map(|_| ())) {
        // dropping a client releases its mapping and descriptor: eight more cycles leave the process where it was
        Ok(Ok(())) => {
            let (m0, f0) = res_counts();
            for _ in 0..8 { let _ = guarded(|| ClockBoundClient::new_with_path(&p2b).map(|_| ())); }
            let (m1, f1) = res_counts();
            if m1 >= m0 + 4 || f1 >= f0 + 4 { format!("ok leak {} {}", m1 - m0, f1 - f0) } else { "ok".to_string() }
        }
        Ok(Err(e)) => client_err_text(&e),
        Err(_) => "panic".into(),
    };
    if nofd0 { unsafe { libc::dup2(saved, 0); libc::close(saved); } }
    let r3 = c_request(&format!("copen {}", path));
    format!("{} ; {} ; {}", r1, r2, r3)
}

// ---------------------------------------------------------------------------------------- seg

/// did `ShmWriter::new` go through `wipe`?  Observed at the cfg-gated program point, all other
/// hooks pass through.
static WIPED: AtomicBool = AtomicBool::new(false);
fn h_load(_a: usize, _w: u8, _o: O, real: u64) -> u64 { real }
fn h_store(_a: usize, _w: u8, _o: O, _v: u64) {}
fn h_fence(_o: O) {}
fn h_dw(_a: usize, _b: &[u8]) {}
fn h_dr(_a: usize, _b: &mut [u8]) {}
fn h_point(n: &'static str) { if n == "wipe:dirs" { WIPED.store(true, O::SeqCst); } }
fn install_wipe_observer() {
    WIPED.store(false, O::SeqCst);
    *verif_shim::HOOKS.write().unwrap() = Some(Hooks { load: h_load, store: h_store, fence: h_fence, data_write: h_dw, data_read: h_dr, point: h_point });
}
fn uninstall() { *verif_shim::HOOKS.write().unwrap() = None; }

fn exec_seg(toks: &[&str]) -> String {
    let (prior, rest) = parse_prior(&toks[1..]);
    let f = parse_ints(rest);
    assert!(f.len() == 8, "seg: 8 record fields expected");
    let rec = mk_record(&f);
    let path = seg_path();
    prepare(&path, &prior);
    let ino_before = std::fs::metadata(&path).ok().map(|m| m.ino());
    let leak = lowest_free_fd();
    let p = path.clone();
    install_wipe_observer();
    let r = guarded(AssertUnwindSafe(move || {
        let mut w = match ShmWriter::new(std::path::Path::new(&p)) {
            Ok(w) => w,
            Err(e) => return Err(e.raw_os_error().unwrap_or(-1)),
        };
        let mid = std::fs::read(&p).unwrap();
        w.write(&rec);
        drop(w);
        Ok(mid)
    }));
    uninstall();
    close_if_open(leak);
    let mid = match r {
        Err(_) => return "panic".into(),
        Ok(Err(errno)) => return format!("err io {}", errno),
        Ok(Ok(mid)) => mid,
    };
    // recreated = `wipe` ran (program point).  Cross-check from the outside: between `new` and the
    // first `write` a wiped file is 72 bytes with generation 0; a taken-over one has generation != 0.
    let recreated = WIPED.load(O::SeqCst);
    let looks_wiped = mid.len() == SEG && mid[14] == 0 && mid[15] == 0;
    if recreated != looks_wiped { return format!("recreated-ambiguous {} {}", recreated as u8, hex(&mid)); }
    let after = std::fs::read(&path).unwrap();
    let ino_after = std::fs::metadata(&path).ok().map(|m| m.ino());
    let inode_same = ino_before.is_some() && ino_before == ino_after;
    let cpath = CString::new(path.clone()).unwrap();
    let rd = if after.len() < SEG {
        // pages past the end of a shorter file must not be touched through a fresh mapping
        match guarded(|| ShmReader::new(cpath.as_c_str()).map(|_| ())) {
            Ok(Ok(())) => "short".to_string(),
            Ok(Err(e)) => shm_err_text(&e),
            Err(_) => "panic".into(),
        }
    } else {
        match guarded(|| {
            let mut r = ShmReader::new(cpath.as_c_str())?;
            let s = r.snapshot()?;
            Ok::<String, clock_bound_shm::ShmError>(record_text(s))
        }) {
            Ok(Ok(t)) => t,
            Ok(Err(e)) => shm_err_text(&e),
            Err(_) => "panic".into(),
        }
    };
    format!("{} {} {} {}", recreated as u8, inode_same as u8, hex(&after), rd)
}

// ---------------------------------------------------------------------------------------- snap

/// a fresh reader on a static file (model validation of `snapshotOfFile`: odd generation, decoding)
fn exec_snap(toks: &[&str]) -> String {
    let (prior, _) = parse_prior(&toks[1..]);
    let path = seg_path();
    prepare(&path, &prior);
    let len = match &prior { Prior::File(b) => b.len(), _ => 0 };
    let cpath = CString::new(path.clone()).unwrap();
    if len < SEG {
        return match guarded(|| ShmReader::new(cpath.as_c_str()).map(|_| ())) {
            Ok(Ok(())) => "short".to_string(),
            Ok(Err(e)) => shm_err_text(&e),
            Err(_) => "panic".into(),
        };
    }
    match guarded(|| {
        let mut r = ShmReader::new(cpath.as_c_str())?;
        let s = r.snapshot()?;
        Ok::<String, clock_bound_shm::ShmError>(record_text(s))
    }) {
        Ok(Ok(t)) => t,
        Ok(Err(e)) => shm_err_text(&e),
        Err(_) => "panic".into(),
    }
}

// ---------------------------------------------------------------------------------------- sandwich

fn exec_sandwich(toks: &[&str]) -> String {
    let f = parse_ints(&toks[1..]);
    assert!(f.len() == 12, "sandwich: 12 ints expected");
    let rec = mk_record(&f[..8]);
    let path = format!("{}/hdr-sandwich-shm", scratch_dir());
    remove_path(&path);
    let leak = lowest_free_fd();
    let p = path.clone();
    let w = guarded(AssertUnwindSafe(move || {
        let mut w = ShmWriter::new(std::path::Path::new(&p)).expect("writer");
        w.write(&rec);
        w
    }));
    let w = match w { Ok(w) => w, Err(_) => { close_if_open(leak); return "writer-panic".into(); } };
    // Rust client, under the harness's virtual clock
    vclock::set(vclock::REALTIME, f[8], f[9]);
    vclock::set(vclock::MONOTONIC_COARSE, f[10], f[11]);
    let p2 = path.clone();
    let r = guarded(move || {
        let mut c = match ClockBoundClient::new_with_path(&p2) { Ok(c) => c, Err(e) => return format!("open{}", client_err_text(&e)) };
        vclock::enable();
        let r = c.now();
        vclock::disable();
        match r {
            Ok(n) => format!("ok {} {} {} {} {}", n.earliest.tv_sec(), n.earliest.tv_nsec(), n.latest.tv_sec(), n.latest.tv_nsec(), status_code(n.clock_status)),
            Err(e) => client_err_text(&e),
        }
    });
    vclock::disable();
    let rust = r.unwrap_or_else(|_| "panic".into());
    // C client, same segment, same instant
    let c = c_request(&format!("cnow {} {} {} {} {}", path, f[8], f[9], f[10], f[11]));
    drop(w);
    close_if_open(leak);
    format!("{} ; {}", rust, c)
}

// ---------------------------------------------------------------------------------------- dispatch

pub fn exec(toks: &[&str], _line: &str) -> Option<String> {
    match toks.first().copied() {
        Some("open") | Some("open0") | Some("openu") | Some("openb") => Some(exec_open(toks)),
        Some("seg") => Some(exec_seg(toks)),
        Some("snap") => Some(exec_snap(toks)),
        Some("sandwich") => Some(exec_sandwich(toks)),
        Some("cabi") => Some(c_request("abi")),
        _ => None,
    }
}

// ---------------------------------------------------------------------------------------- generators

pub fn header_bytes(m0: u32, m1: u32, size: u32, ver: u16, gen: u16) -> Vec<u8> {
    let mut v = Vec::new();
    v.extend_from_slice(&m0.to_ne_bytes());
    v.extend_from_slice(&m1.to_ne_bytes());
    v.extend_from_slice(&size.to_ne_bytes());
    v.extend_from_slice(&ver.to_ne_bytes());
    v.extend_from_slice(&gen.to_ne_bytes());
    v
}

/// record bytes as the harness (not the code under test) lays them out, native endian, zero padding
pub fn record_bytes(f: &[i64]) -> Vec<u8> {
    let mut v = Vec::new();
    for x in &f[..5] { v.extend_from_slice(&x.to_ne_bytes()); }
    v.extend_from_slice(&(f[5] as u32).to_ne_bytes());
    v.extend_from_slice(&(f[6] as u32).to_ne_bytes());
    v.extend_from_slice(&(f[7] as i32).to_ne_bytes());
    v.extend_from_slice(&[0u8; 4]);
    v
}

pub fn segment(m0: u32, m1: u32, size: u32, ver: u16, gen: u16, rec: &[i64]) -> Vec<u8> {
    let mut v = header_bytes(m0, m1, size, ver, gen);
    v.extend_from_slice(&record_bytes(rec));
    v
}

const SIZES: [u32; 8] = [0, 15, 16, 71, 72, 73, 400, u32::MAX];
const VERSIONS: [u16; 4] = [0, 1, 3, 65535];
const GENS: [u16; 4] = [0, 1, 2, 65535];

pub fn gen_record(rng: &mut Rng) -> [i64; 8] {
    let ext = [0i64, 1, -1, i64::MAX, i64::MIN, 999_999_999, 1_000_000_000, -1_000_000_000, 1 << 32, -(1 << 32), 0x0102030405060708, -0x0102030405060708];
    let pick64 = |rng: &mut Rng| -> i64 {
        match rng.below(4) { 0 => rng.pick(&ext), 1 => rng.next() as i64, 2 => rng.range(-100_000, 100_000), _ => rng.range(0, 2_000_000_000) }
    };
    let a = pick64(rng); let b = pick64(rng); let c = pick64(rng); let d = pick64(rng); let e = pick64(rng);
    let u32s = [0i64, 1, 999, 1000, 999_999_999, 1_000_000_000, 0x01020304, 0x7fff_ffff, 0x8000_0000, 0xffff_ffff];
    let drift = if rng.chance(1, 2) { rng.pick(&u32s) } else { rng.range(0, 0xffff_ffff) };
    let reserved = if rng.chance(1, 2) { rng.pick(&u32s) } else { rng.range(0, 0xffff_ffff) };
    [a, b, c, d, e, drift, reserved, rng.range(0, 2)]
}

fn rec_text(f: &[i64]) -> String { f.iter().map(|x| x.to_string()).collect::<Vec<_>>().join(" ") }

/// priors of the deterministic grid (shared by `open` and `seg`)
pub fn prior_grid(rng: &mut Rng) -> Vec<Prior> {
    let mut v = vec![Prior::Missing, Prior::Dir];
    let rec = [7i64, 8, 1007, 0, 12345, 1000, 0x0a0b0c0d, 1];
    let valid = segment(MAGIC0, MAGIC1, 72, 1, 10, &rec);
    // every truncation length 0..=72 of a valid segment
    for n in 0..=SEG { v.push(Prior::File(valid[..n].to_vec())); }
    // single-field mutations, on the full segment and on the bare 16-byte header
    let mut magics: Vec<(u32, u32)> = vec![(MAGIC1, MAGIC0), (0, 0), (MAGIC0, 0), (0, MAGIC1), (MAGIC0.swap_bytes(), MAGIC1.swap_bytes()), (u32::MAX, u32::MAX)];
    for bit in 0..32 { magics.push((MAGIC0 ^ (1 << bit), MAGIC1)); magics.push((MAGIC0, MAGIC1 ^ (1 << bit))); }
    for &(a, b) in &magics {
        v.push(Prior::File(segment(a, b, 72, 1, 10, &rec)));
    }
    // the magic as the current docs/PROTOCOL.md spells it, byte by byte
    let mut doc = vec![0x41u8, 0x4D, 0x5A, 0x4E, 0x43, 0x42, 0x02, 0x00];
    doc.extend_from_slice(&valid[8..]);
    v.push(Prior::File(doc));
    // full cross product size x version x generation x magic ok/bad, 72-byte and header-only files
    for &sz in &SIZES { for &ver in &VERSIONS { for &gen in &GENS { for &okm in &[true, false] {
        let m0 = if okm { MAGIC0 } else { MAGIC0 ^ 0x100 };
        let full = segment(m0, MAGIC1, sz, ver, gen, &rec);
        v.push(Prior::File(full.clone()));
        v.push(Prior::File(full[..16].to_vec()));
    } } } }
    // valid segments longer than 72 bytes (declared 72 / declared = length), odd generations, wrap
    for &(len, sz) in &[(100usize, 72u32), (400, 400), (400, 72), (73, 73), (4096, 4096), (4097, 72)] {
        for &gen in &[1u16, 2, 65534, 65535] {
            let mut b = segment(MAGIC0, MAGIC1, sz, 1, gen, &rec);
            while b.len() < len { b.push((rng.next() & 0xff) as u8); }
            v.push(Prior::File(b));
        }
    }
    v
}

pub fn random_prior(rng: &mut Rng) -> Prior {
    match rng.below(12) {
        0 => Prior::Missing,
        1 => Prior::Dir,
        2 | 3 | 4 => { // random bytes, random length 0..200
            let n = rng.below(201) as usize;
            Prior::File((0..n).map(|_| (rng.next() & 0xff) as u8).collect())
        }
        5 | 6 => { // valid magic, random rest
            let n = rng.below(201) as usize;
            let mut b = header_bytes(MAGIC0, MAGIC1, 0, 0, 0);
            b.truncate(8);
            while b.len() < n.max(8) { b.push((rng.next() & 0xff) as u8); }
            b.truncate(n.max(if rng.chance(1, 4) { 0 } else { 8 }));
            Prior::File(b)
        }
        7 | 8 => { // well-formed header with boundary values, random tail length
            let sz = if rng.chance(1, 2) { rng.pick(&SIZES) } else { rng.range(0, 200) as u32 };
            let ver = if rng.chance(1, 2) { rng.pick(&VERSIONS) } else { rng.range(0, 65535) as u16 };
            let gen = if rng.chance(1, 2) { rng.pick(&GENS) } else { rng.range(0, 65535) as u16 };
            let mut b = header_bytes(MAGIC0, MAGIC1, sz, ver, gen);
            let n = rng.below(201) as usize;
            while b.len() < n { b.push((rng.next() & 0xff) as u8); }
            if rng.chance(1, 6) { b.truncate(n); }
            Prior::File(b)
        }
        _ => { // a valid live segment: random record, version, generation, optional tail
            let r = gen_record(rng);
            let gen = match rng.below(4) { 0 => rng.pick(&[1u16, 2, 65534, 65535]), _ => rng.range(1, 65535) as u16 };
            let ver = if rng.chance(1, 4) { rng.range(1, 65535) as u16 } else { 1 };
            let extra = if rng.chance(1, 3) { rng.below(128) as usize } else { 0 };
            let sz = if rng.chance(1, 2) { 72 } else { 72 + extra as u32 };
            let mut b = segment(MAGIC0, MAGIC1, sz, ver, gen, &r);
            for _ in 0..extra { b.push((rng.next() & 0xff) as u8); }
            Prior::File(b)
        }
    }
}

/// `hdr-open <seed> <count>`: the grid, then <count> random priors
pub fn gen_open(seed: u64, count: usize) -> Vec<String> {
    let mut rng = Rng::new(seed ^ 0x16_0001);
    let mut v: Vec<String> = prior_grid(&mut rng).iter().map(|p| format!("open {}", p.text())).collect();
    // the same opens by a process that has no descriptor 0
    v.push(format!("open0 {}", Prior::File(segment(MAGIC0, MAGIC1, 72, 1, 2, &[1, 2, 3, 4, 5, 6, 7, 1])).text()));
    v.push("open0 missing".to_string());
    v.push(format!("open0 {}", Prior::File(vec![1, 2, 3]).text()));
    // the same opens by an unprivileged process (uid 65534) that may not lock any memory
    v.push(format!("openu {}", Prior::File(segment(MAGIC0, MAGIC1, 72, 1, 2, &[1, 2, 3, 4, 5, 6, 7, 1])).text()));
    v.push(format!("openu {}", Prior::File(segment(MAGIC0, MAGIC1, 1 << 20, 1, 2, &[1, 2, 3, 4, 5, 6, 7, 1])).text()));
    v.push("openu missing".to_string());
    v.push(format!("openu {}", Prior::File(vec![1, 2, 3]).text()));
    // the same opens of a segment whose name is not valid UTF-8
    v.push(format!("openb {}", Prior::File(segment(MAGIC0, MAGIC1, 72, 1, 2, &[1, 2, 3, 4, 5, 6, 7, 1])).text()));
    v.push(format!("openb {}", Prior::File(segment(MAGIC0, MAGIC1, 72, 0, 2, &[1, 2, 3, 4, 5, 6, 7, 1])).text()));
    v.push(format!("openb {}", Prior::File(segment(MAGIC0, MAGIC1, 71, 1, 2, &[1, 2, 3, 4, 5, 6, 7, 1])).text()));
    v.push("openb missing".to_string());
    v.push("openb dir".to_string());
    for i in 0..count { let p = random_prior(&mut rng).text(); if i % 16 == 0 { v.push(format!("openu {}", p)); } if i % 16 == 8 { v.push(format!("openb {}", p)); } v.push(format!("open {}", p)); }
    v
}

/// `hdr-seg <seed> <count>`: every grid prior with a random record, then <count> random (prior, record)
pub fn gen_seg(seed: u64, count: usize) -> Vec<String> {
    let mut rng = Rng::new(seed ^ 0x16_0002);
    let mut v = Vec::new();
    for p in prior_grid(&mut rng) { let r = gen_record(&mut rng); v.push(format!("seg {} {}", p.text(), rec_text(&r))); }
    // all three statuses and extreme values over a fresh and over a live segment
    for st in 0..3 { for &x in &[0i64, -1, i64::MAX, i64::MIN, 0x0102030405060708] { for &u in &[0i64, 0x01020304, 0xffff_ffff] {
        let r = [x, x.wrapping_add(1), x.wrapping_sub(1), !x, x, u, 0xffff_ffff - u, st];
        v.push(format!("seg missing {}", rec_text(&r)));
        v.push(format!("seg {} {}", Prior::File(segment(MAGIC0, MAGIC1, 72, 1, 2, &[1, 2, 3, 4, 5, 6, 7, 1])).text(), rec_text(&r)));
    } } }
    for _ in 0..count { let p = random_prior(&mut rng); let r = gen_record(&mut rng); v.push(format!("seg {} {}", p.text(), rec_text(&r))); }
    v
}

/// `hdr-snap <seed> <count>`: static files read by a fresh reader: every grid prior (status word forced
/// valid where the file is long enough to be read), then random live segments with even / odd generations
pub fn gen_snap(seed: u64, count: usize) -> Vec<String> {
    let mut rng = Rng::new(seed ^ 0x16_0003);
    let mut v = Vec::new();
    let fix = |mut b: Vec<u8>| -> Vec<u8> {
        // never hand the code under test an invalid enum discriminant
        if b.len() >= SEG { let st = u32::from_ne_bytes([b[64], b[65], b[66], b[67]]); if st > 2 { b[64] = (st % 3) as u8; b[65] = 0; b[66] = 0; b[67] = 0; } }
        b
    };
    for p in prior_grid(&mut rng) { if let Prior::File(b) = p { v.push(format!("snap {}", Prior::File(fix(b)).text())); } }
    for _ in 0..count {
        let p = random_prior(&mut rng);
        if let Prior::File(b) = p { v.push(format!("snap {}", Prior::File(fix(b)).text())); }
    }
    v
}

/// `hdr-sandwich <seed> <count>`: the client generator's cases (records x clock readings around every
/// threshold), with a random reserved word, through both client libraries
pub fn gen_sandwich(seed: u64, count: usize) -> Vec<String> {
    let mut rng = Rng::new(seed ^ 0x17_0001);
    let mut v = Vec::new();
    let conv = |c: &str, reserved: i64| -> String {
        // client as an vs vn b dr st rs rn ms mn  ->  sandwich as an vs vn b dr reserved st rs rn ms mn
        let t: Vec<&str> = c.split(' ').collect();
        format!("sandwich {} {} {} {}", t[1..7].join(" "), reserved, t[7], t[8..12].join(" "))
    };
    for (i, g) in crate::client::grid().iter().enumerate() { if i % 16 == (seed % 16) as usize { v.push(conv(g, 0)); } }
    for _ in 0..count {
        let c = crate::client::gen_case(&mut rng);
        let reserved = if rng.chance(1, 2) { 0 } else { rng.range(0, 0xffff_ffff) };
        v.push(conv(&c, reserved));
    }
    v
}
