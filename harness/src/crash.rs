//! C04 (file level): the writer dies at every hook point / shared access of `ShmWriter::new` + first
//! `write`, over every kind of pre-existing file; then a restarted writer takes over. Observed: what
//! the dead writer left in the file, whether it can be opened, what an already attached reader and a
//! fresh reader see (both between the crash and the restart, and after the restart), whether a valid
//! segment kept its inode and length.
//!
//!   crashpt <prior> <k> <k1> <k2>
//!     prior : missing | empty | garbage | wiped | valid <gen> <k0> | validv <version> <gen> <k0>
//!             | foreign <gen> <k0>                                     (k* = record numbers, ra::rec_cells)
//!             foreign = a 72-byte segment of ANOTHER layout revision: second magic word 0x43420100, but a
//!             plausible size / version 1 / generation and a payload (record k0). It is not usable; nothing
//!             of it may ever reach a client (nobody reads what was never published)
//!     k     : the writer dies at its k-th event (0-based) of `new; write(rec k1)`; a k beyond the last
//!             event means it completes
//!   => ev <name of the fatal event | end> ; crashed open:<ok|err…> file:<len> attached:<cells|none|err>
//!      fresh:<cells|none|err>      (first snapshot of a reader that attaches AFTER the crash, BEFORE the restart)
//!      ; restarted inode_same:<0|1> len:<n> fresh:<cells|err…> attached:<cells|none|err>
use crate::ra::rec_cells;
use crate::util::*;
use clock_bound_shm::verif_shim::{self, Hooks};
use clock_bound_shm::{ShmReader, ShmWrite, ShmWriter};
use std::ffi::CString;
use std::os::unix::fs::MetadataExt;
use std::sync::atomic::{AtomicI64, Ordering as O};
use std::sync::Mutex;

static COUNT: AtomicI64 = AtomicI64::new(0);
static FATAL: AtomicI64 = AtomicI64::new(-1);
static LAST: Mutex<String> = Mutex::new(String::new());

fn event(name: &str) {
    let k = COUNT.fetch_add(1, O::SeqCst);
    if k == FATAL.load(O::SeqCst) {
        *LAST.lock().unwrap() = name.to_string();
        std::panic::panic_any("crash");
    }
}
fn h_load(_a: usize, _w: u8, _o: O, real: u64) -> u64 { event("load"); real }
fn h_store(a: usize, _w: u8, _o: O, _v: u64) { event(if a & 0xfff == 12 { "store:version" } else { "store:generation" }); }
fn h_fence(_o: O) { event("fence"); }
fn h_data_write(_d: usize, _s: &[u8]) { event("copy"); }
fn h_data_read(_s: usize, _b: &mut [u8]) {}
fn h_point(n: &'static str) { event(n); }

fn record_of(k: u64) -> clock_bound_shm::ClockErrorBound {
    let c = rec_cells(k);
    mk_record(&[c[0] as i64, c[1] as i64, c[2] as i64, c[3] as i64, c[4] as i64, (c[5] & 0xffff_ffff) as i64, (c[5] >> 32) as i64, c[6] as i64])
}
fn cells_text(r: &clock_bound_shm::ClockErrorBound) -> String {
    let f = record_fields(r);
    format!("{},{},{},{},{},{},{}", f[0], f[1], f[2], f[3], f[4], (f[5] as u64) | ((f[6] as u64) << 32), f[7])
}
fn snap_text(r: &mut Option<ShmReader>) -> String {
    match r.as_mut() { None => "none".into(), Some(r) => match r.snapshot() { Ok(c) => cells_text(c), Err(e) => shm_err_text(&e).replace(' ', "_") } }
}

pub fn exec(toks: &[&str]) -> String {
    // parse
    let mut i = 1;
    // environment modifiers, irrelevant to the protocol: `@old` = the prior file was last modified two
    // hours ago (stores through a mapping do not refresh st_mtime), `@bin` = its name is not valid UTF-8
    // `@uid` = the restart happens under uid 65534, which owns the directory but not the file root left there
    // `@link` = the segment path is a symbolic link to the file (a runtime directory laid out by a packaging script)
    let (mut old, mut bin, mut uid, mut link) = (false, false, false, false);
    while toks[i].starts_with('@') { match toks[i] { "@old" => old = true, "@bin" => bin = true, "@uid" => uid = true, "@link" => link = true, _ => return "bad-modifier".into() } i += 1; }
    let prior = toks[i]; i += 1;
    // `valid <gen> <k>` (layout version 1), `validv <version> <gen> <k>` or `foreign <gen> <k>` (version 1,
    // wrong second magic word)
    let pv: u64 = if prior == "validv" { let v = toks[i].parse().unwrap(); i += 1; v } else { 1 };
    let (pg, pk) = if prior == "valid" || prior == "validv" || prior == "foreign" { let g: u64 = toks[i].parse().unwrap(); let k: u64 = toks[i + 1].parse().unwrap(); i += 2; (g, k) } else { (0, 0) };
    let fatal: i64 = toks[i].parse().unwrap();
    let k1: u64 = toks[i + 1].parse().unwrap();
    let k2: u64 = toks[i + 2].parse().unwrap();
    let path: std::path::PathBuf = {
        use std::os::unix::ffi::OsStringExt;
        let dir = if uid { let d = format!("{}/crash-uid", scratch_dir()); let _ = std::fs::remove_dir_all(&d); std::fs::create_dir_all(&d).unwrap(); d } else { scratch_dir() };
        let mut b = format!("{}/crash-shm", dir).into_bytes();
        if bin { b.extend_from_slice(b".\xE9\xFF"); }
        std::ffi::OsString::from_vec(b).into()
    };
    let _ = std::fs::remove_file(&path);
    let _ = std::fs::remove_dir_all(&path);
    // with `@link` the prior content goes to `<path>.real` and the path itself is a symbolic link to it
    let link_path = path.clone();
    let path: std::path::PathBuf = if link { let mut r = path.clone().into_os_string(); r.push(".real"); let r: std::path::PathBuf = r.into(); let _ = std::fs::remove_file(&r); r } else { path };
    let header_m = |magic1: u32, ver: u16, gen: u16, cells: [u64; 7]| {
        let mut b = Vec::new();
        b.extend_from_slice(&0x414D5A4Eu32.to_ne_bytes()); b.extend_from_slice(&magic1.to_ne_bytes());
        b.extend_from_slice(&72u32.to_ne_bytes()); b.extend_from_slice(&ver.to_ne_bytes()); b.extend_from_slice(&gen.to_ne_bytes());
        for c in cells.iter() { b.extend_from_slice(&c.to_ne_bytes()); }
        b
    };
    let header = |ver: u16, gen: u16, cells: [u64; 7]| header_m(0x43420200, ver, gen, cells);
    match prior {
        "missing" => {}
        "empty" => std::fs::write(&path, b"").unwrap(),
        "garbage" => std::fs::write(&path, b"foobarbaz-not-a-segment-at-all-0123456789").unwrap(),
        "wiped" => std::fs::write(&path, header(0, 0, [0; 7])).unwrap(),
        "valid" | "validv" => std::fs::write(&path, header(pv as u16, pg as u16, rec_cells(pk))).unwrap(),
        // a segment of another layout revision: everything plausible but the second magic word
        "foreign" => std::fs::write(&path, header_m(0x43420100, 1, pg as u16, rec_cells(pk))).unwrap(),
        _ => return "bad-prior".into(),
    }
    // from here on everybody (writer, readers, observations) uses the link; metadata() follows it
    let path: std::path::PathBuf = if link { let _ = std::fs::remove_file(&link_path); std::os::unix::fs::symlink(&path, &link_path).unwrap(); link_path } else { path };
    let c = { use std::os::unix::ffi::OsStrExt; CString::new(path.as_os_str().as_bytes()).unwrap() };
    if old && path.exists() {
        let t = libc::timespec { tv_sec: unsafe { libc::time(std::ptr::null_mut()) } - 7200, tv_nsec: 0 };
        unsafe { libc::utimensat(libc::AT_FDCWD, c.as_ptr(), [t, t].as_ptr(), 0); }
    }
    let inode_before = std::fs::metadata(&path).map(|m| m.ino()).unwrap_or(0);
    // a reader attached before the daemon (re)starts, if the segment can be opened at all
    let mut attached: Option<ShmReader> = ShmReader::new(&c).ok();
    let _ = snap_text(&mut attached); // prime its cache the way a running client would have
    // first incarnation: dies at event `fatal`
    COUNT.store(0, O::SeqCst); FATAL.store(fatal, O::SeqCst); *LAST.lock().unwrap() = "end".into();
    *verif_shim::HOOKS.write().unwrap() = Some(Hooks { load: h_load, store: h_store, fence: h_fence, data_write: h_data_write, data_read: h_data_read, point: h_point });
    let p2 = path.clone();
    let _ = guarded(std::panic::AssertUnwindSafe(move || {
        let mut w = ShmWriter::new(&p2).expect("new");
        w.write(&record_of(k1));
        event("done"); // a death after the first publication completed
    }));
    *verif_shim::HOOKS.write().unwrap() = None;
    let ev = LAST.lock().unwrap().clone();
    let open1 = match ShmReader::new(&c) { Ok(_) => "ok".to_string(), Err(e) => shm_err_text(&e).replace(' ', "_") };
    let len1 = std::fs::metadata(&path).map(|m| m.len() as i64).unwrap_or(-1);
    // an attached reader must not touch a truncated mapping (SIGBUS): only snapshot when the file still covers the record
    let att1 = if len1 >= 72 { snap_text(&mut attached) } else if attached.is_some() { "sigbus-hazard".into() } else { "none".into() };
    // a client that attaches now, between the crash and the restart: its first snapshot (same SIGBUS caution)
    let fresh1_t = {
        let mut fresh1 = ShmReader::new(&c).ok();
        if fresh1.is_none() { "none".to_string() } else if len1 >= 72 { snap_text(&mut fresh1) } else { "sigbus-hazard".into() }
    };
    // restart: a new writer over whatever is there, then one publication
    let p3 = path.clone();
    let r = if uid {
        // the directory (and the way to it) belongs to the service account; the file, if any, stays root's, mode 0644
        use std::os::unix::fs::PermissionsExt;
        let dir = path.parent().unwrap().to_path_buf();
        let cdir = CString::new(dir.to_str().unwrap()).unwrap();
        unsafe { libc::chown(cdir.as_ptr(), 65534, 65534); }
        let _ = std::fs::set_permissions(&dir, std::fs::Permissions::from_mode(0o755));
        let t = crate::header::in_unprivileged_child(move || { match ShmWriter::new(&p3) { Ok(mut w) => { w.write(&record_of(k2)); "ok".to_string() } Err(_) => "refused".to_string() } });
        if t == "ok" { Ok(()) } else { Err(()) }
    } else {
        guarded(std::panic::AssertUnwindSafe(move || { let mut w = ShmWriter::new(&p3).expect("new"); w.write(&record_of(k2)); }))
    };
    let inode_after = std::fs::metadata(&path).map(|m| m.ino()).unwrap_or(0);
    let len2 = std::fs::metadata(&path).map(|m| m.len() as i64).unwrap_or(-1);
    let mut fresh = ShmReader::new(&c).ok();
    let fresh_t = if fresh.is_some() { snap_text(&mut fresh) } else { match ShmReader::new(&c) { Err(e) => shm_err_text(&e).replace(' ', "_"), Ok(_) => "?".into() } };
    let att2 = if len2 >= 72 && len1 >= 72 { snap_text(&mut attached) } else if attached.is_some() { "sigbus-hazard".into() } else { "none".into() };
    drop(fresh); drop(attached);
    close_leaked_os(path.as_os_str());
    // permission bits of the segment file: other users' clients must be able to read it
    let mode = std::fs::metadata(&path).map(|m| m.mode() & 0o777).unwrap_or(0);
    format!("ev {} ; crashed open:{} file:{} attached:{} fresh:{} ; restarted{} inode_same:{} len:{} fresh:{} attached:{} mode:{:o}",
        ev, open1, len1, att1, fresh1_t, if r.is_err() { if uid { "-refused" } else { "-panic" } } else { "" }, (inode_before != 0 && inode_before == inode_after) as u8, len2, fresh_t, att2, mode)
}

pub fn grid() -> Vec<String> {
    let mut v = Vec::new();
    let priors = ["missing", "empty", "garbage", "wiped", "valid 4 90", "valid 7 91", "valid 65534 92", "valid 65535 93", "valid 1 94", "validv 3 6 95", "validv 65535 9 96",
        "foreign 4 97", "foreign 7 98", "foreign 65534 99"];
    for p in priors.iter() {
        for k in 0..24 { v.push(format!("crashpt {} {} 1 2", p, k)); }
    }
    // the same restart over a valid segment whose file is old / whose name is not UTF-8
    // the restart under a service account that owns the directory but not the file
    for p in ["valid 4 90", "valid 7 91", "validv 3 6 95", "foreign 4 97", "garbage", "wiped"] {
        for k in [0, 5, 12, 18, 30] { v.push(format!("crashpt @uid {} {} 1 2", p, k)); }
    }
    for m in ["@link", "@link @old"] {
        for p in ["valid 4 90", "valid 7 91", "wiped", "missing", "foreign 4 97"] {
            for k in [0, 5, 12, 18, 30] { v.push(format!("crashpt {} {} {} 1 2", m, p, k)); }
        }
    }
    for m in ["@old", "@bin", "@old @bin"] {
        for p in ["valid 4 90", "valid 7 91", "wiped", "missing", "foreign 4 97"] {
            for k in [0, 12, 18, 30] { v.push(format!("crashpt {} {} {} 1 2", m, p, k)); }
        }
    }
    v
}
