//! C01: virtual-time end-to-end run. A seeded world (piecewise-linear realtime and monotonic clocks
//! within the drift budget, chrony reports made valid by construction, outages, restarts) drives the
//! real `ShmUpdater` (through the cfg-gated wrapper), the real `ShmWriter`/`ShmReader` on a file and
//! the real `ClockBoundClient`, under the interposed clocks. True time is an integer number of ns;
//! clock values are kept exactly as integers scaled by 10^9.
use crate::rng::Rng;
use crate::util::*;
use crate::vclock;
use crate::wire::{self, Trk};
use clock_bound_client::ClockBoundClient;
use clock_bound_d::verif_shm_writer::Updater;
use clock_bound_shm::{ShmReader, ShmWriter};
use std::ffi::CString;

const Q: i128 = 1_000_000_000;

#[derive(Clone, Debug)]
pub struct Clocks { pub t0: i128, pub r0q: i128, pub m0q: i128, pub segs: Vec<(i128, i128, i128)> } // (len_ns, r_ppb, m_ppb)

impl Clocks {
    /// (Rc(t), Mc(t)) scaled by 10^9; the last segment extends for ever
    pub fn at(&self, t: i128) -> (i128, i128) {
        let (mut tk, mut r, mut m) = (self.t0, self.r0q, self.m0q);
        for (i, &(len, rp, mp)) in self.segs.iter().enumerate() {
            let last = i + 1 == self.segs.len();
            if t < tk + len || last {
                let d = t - tk;
                return (r + d * (Q + rp), m + d * (Q + mp));
            }
            r += len * (Q + rp); m += len * (Q + mp); tk += len;
        }
        (r + (t - tk) * Q, m + (t - tk) * Q)
    }
    pub fn real_floor(&self, t: i128) -> i128 { self.at(t).0.div_euclid(Q) }
    pub fn mono_floor(&self, t: i128) -> i128 { self.at(t).1.div_euclid(Q) }
}

/// chrony wire word of an f64 (through chrony-candm's own lossy conversion and serialiser)
pub fn cf_word(x: f64) -> u32 {
    use chrony_candm::reply::{Reply, ReplyBody, Status};
    let mut t = wire::tracking(&Trk::default());
    t.current_correction = x.into();
    let r = Reply { status: Status::Success, cmd: 33, sequence: 0, body: ReplyBody::Tracking(t) };
    let mut out = Vec::new();
    r.serialize(&mut out);
    u32::from_be_bytes(out[28 + 40..28 + 44].try_into().unwrap())
}
fn cf_val(w: u32) -> f64 { wire::tracking(&Trk { off: w, ..Default::default() }).current_correction.into() }

struct Daemon { upd: Updater<ShmWriter> }

fn new_daemon(path: &str, rho: u32) -> Daemon {
    Daemon { upd: Updater::new(ShmWriter::new(std::path::Path::new(path)).expect("ShmWriter::new"), rho) }
}

/// world <rho> <t0> <r0q> <m0q> seg <len> <r> <m> … ; ev … ; ev …
pub fn exec(line: &str) -> String {
    let parts: Vec<&str> = line.split(';').map(|s| s.trim()).collect();
    let h: Vec<&str> = parts[0].split_whitespace().collect();
    let rho: u32 = h[1].parse::<i64>().unwrap() as u32;
    let p = |s: &str| s.parse::<i128>().unwrap();
    let mut clk = Clocks { t0: p(h[2]), r0q: p(h[3]), m0q: p(h[4]), segs: Vec::new() };
    let mut i = 5;
    while i + 3 < h.len() + 0 && h[i] == "seg" { clk.segs.push((p(h[i + 1]), p(h[i + 2]), p(h[i + 3]))); i += 4; }
    let path = format!("{}/world-shm", scratch_dir());
    let _ = std::fs::remove_file(&path);
    let mut out: Vec<String> = Vec::new();
    let res = guarded(std::panic::AssertUnwindSafe(|| {
        let mut d = new_daemon(&path, rho);
        let mut client: Option<ClockBoundClient> = None;
        for ev in &parts[1..] {
            let t: Vec<&str> = ev.split_whitespace().collect();
            match t.first().copied() {
                Some("poll") => {
                    let (ta, _tq, tp) = (p(t[1]), p(t[2]), p(t[3]));
                    let r = guarded(std::panic::AssertUnwindSafe(|| {
                        if t[4] == "trk" {
                            let f = parse_ints(&t[5..]);
                            let trk = Trk { leap: f[0] as u16, ref_ns: f[1], off: f[2] as u32, disp: f[3] as u32, delay: f[4] as u32, interval: f[5] as u32, refid: 0, ip4: None, stratum: None };
                            let mono = clk.mono_floor(ta);
                            vclock::set_ns(vclock::REALTIME, clk.real_floor(tp));
                            vclock::enable();
                            d.upd.process_clock_update(wire::tracking(&trk), f[6], ts(mono.div_euclid(Q) as i64, mono.rem_euclid(Q) as i64));
                            vclock::disable();
                        } else {
                            d.upd.process_missing_clock_update(t[5] == "1");
                        }
                    }));
                    vclock::disable();
                    if r.is_err() { out.push("panic".into()); return; }
                    // read the publication back through a fresh reader
                    let c = CString::new(path.clone()).unwrap();
                    match ShmReader::new(&c) {
                        Ok(mut rd) => match rd.snapshot() {
                            Ok(rec) => {
                                // the generation word of the file after this publication (bytes 14..16)
                                let g = std::fs::read(&path).ok().filter(|b| b.len() >= 16).map(|b| u16::from_ne_bytes([b[14], b[15]])).unwrap_or(0);
                                out.push(format!("{} @{}", record_text(rec), g))
                            }
                            Err(e) => out.push(shm_err_text(&e)),
                        },
                        Err(e) => out.push(shm_err_text(&e)),
                    }
                }
                Some("restart") => { drop(std::mem::replace(&mut d, new_daemon(&path, rho))); out.push("restarted".into()); }
                Some("query") => {
                    let (tr, tm) = (p(t[1]), p(t[2]));
                    if client.is_none() { client = ClockBoundClient::new_with_path(&path).ok(); }
                    match client.as_mut() {
                        None => out.push("err open".into()),
                        Some(c) => {
                            vclock::set_ns(vclock::REALTIME, clk.real_floor(tr));
                            vclock::set_ns(vclock::MONOTONIC_COARSE, clk.mono_floor(tm));
                            vclock::enable();
                            let r = guarded(std::panic::AssertUnwindSafe(|| c.now()));
                            vclock::disable();
                            out.push(match r {
                                Ok(Ok(n)) => format!("ok {} {} {} {} {}", n.earliest.tv_sec(), n.earliest.tv_nsec(), n.latest.tv_sec(), n.latest.tv_nsec(), status_code(n.clock_status)),
                                Ok(Err(e)) => format!("err {:?}", e.kind).replace(' ', "_"),
                                Err(()) => "panic".into(),
                            });
                        }
                    }
                }
                _ => {}
            }
        }
    }));
    vclock::disable();
    close_leaked(&path);
    if res.is_err() { out.push("panic".into()); }
    out.join(" ; ")
}

pub fn gen_world(rng: &mut Rng) -> String {
    let rho: i128 = rng.pick(&[1000i64, 50_000, 50_000, 200_000, 1, 999_999]) as i128;
    // realtime starts with an offset of up to +-50 ms; monotonic is uptime-like
    let off0: i128 = rng.range(-50_000_000, 50_000_000) as i128;
    let epoch: i128 = 1_700_000_000 * Q;
    let t0: i128 = epoch; // true time is on the same scale as the realtime clock
    let r0q = (epoch + off0) * Q + rng.range(0, 999_999_999) as i128;
    let m0q = (rng.range(10, 5_000_000) as i128 * Q) * Q + rng.range(0, 999_999_999) as i128;
    let mut segs = Vec::new();
    for _ in 0..rng.range(1, 5) {
        let m = rng.pick(&[0i64, 0, 50, -50, 7]) as i128;
        let lim = (rho * (Q + m)) / Q - 1; // |r| <= rho*(1+m/1e9), strictly inside
        let lim = lim.max(0);
        let r = match rng.below(4) { 0 => lim, 1 => -lim, 2 => 0, _ => rng.range(-(lim as i64), lim as i64) as i128 };
        segs.push((rng.range(1, 400) as i128 * Q, r, m));
    }
    let clk = Clocks { t0, r0q, m0q, segs: segs.clone() };
    let mut parts = vec![format!("world {} {} {} {} {}", rho, t0, r0q, m0q, segs.iter().map(|s| format!("seg {} {} {}", s.0, s.1, s.2)).collect::<Vec<_>>().join(" "))];
    let mut t: i128 = t0 + rng.range(0, 2 * Q as i64) as i128;
    let n_ev = rng.range(3, 40);
    let mut have_pub = false;
    // one history in five starts cold: nothing but silences / unsynchronised reports and restarts for a while
    let cold_len = if rng.chance(1, 5) { rng.range(2, 8) } else { 0 };
    for ev_i in 0..n_ev {
        if ev_i < cold_len {
            let ta = t; let tq = ta + rng.pick(&[0i64, 1000, 900_000_000]) as i128; let tp = tq + rng.pick(&[0i64, 5000]) as i128;
            t = tp + rng.range(0, 2 * Q as i64) as i128;
            match rng.below(5) {
                0 => parts.push("restart".into()),
                1 | 2 => parts.push(format!("poll {} {} {} silence {}", ta, tq, tp, rng.below(2))),
                _ => {
                    // leap 3, or a synchronised leap status with a reference time 200 s old (stale at 16 s intervals)
                    let now_real = clk.real_floor(tp);
                    let (leap, age) = if rng.chance(1, 2) { (3, 0) } else { (rng.range(0, 2), 200 * Q) };
                    parts.push(format!("poll {} {} {} trk {} {} {} {} {} {} {}", ta, tq, tp, leap, (now_real - age).max(0), cf_word(1e-4), cf_word(1e-4), cf_word(1e-4), (5u32 << 25) | (1 << 23), 0));
                }
            }
            have_pub = true;
            if rng.chance(1, 3) { let tr = t + rng.pick(&[0i64, 1000, 4_000_000_000]) as i128; parts.push(format!("query {} {}", tr, tr + 500)); }
            continue;
        }
        match if ev_i == 0 { 0 } else { rng.below(10) } {
            0..=4 => {
                // a poll
                let ta = t; let tq = ta + rng.pick(&[0i64, 1, 1000, 10_000_000, 900_000_000, 2_500_000_000]) as i128; let tp = tq + rng.pick(&[0i64, 1, 5000, 1_000_000]) as i128;
                t = tp + rng.range(0, 3 * Q as i64) as i128;
                if rng.chance(1, 4) { parts.push(format!("poll {} {} {} silence {}", ta, tq, tp, rng.below(2))); }
                else {
                    // true offset of the realtime clock at tq, in seconds
                    let (rq, _) = clk.at(tq);
                    let delta_ns = (rq - tq * Q) as f64 / 1e9; // ns
                    let delta_s = delta_ns / 1e9;
                    let sign = if rng.chance(1, 2) { 1.0 } else { -1.0 }; // chrony's sign convention does not matter: magnitude is used
                    let tight = rng.chance(1, 2);
                    let offw = cf_word(sign * delta_s * if tight { 1.0 } else { rng.pick(&[0.0, 0.5, 0.9, 1.0]) });
                    let offv = cf_val(offw).abs();
                    let need = (delta_s.abs() - offv).max(0.0);
                    let delay = if tight { 0.0 } else { rng.pick(&[0.0, 1e-6, 1e-4, 2e-3]) };
                    let delayw = cf_word(delay);
                    let mut disp = (need - cf_val(delayw) / 2.0).max(0.0) * (1.0 + 1e-6) + if tight { 1e-12 } else { rng.pick(&[1e-9, 1e-6, 1e-3]) };
                    let mut dispw = cf_word(disp);
                    while cf_val(dispw) + cf_val(delayw) / 2.0 < need { disp *= 1.0 + 1e-6; disp += 1e-12; dispw = cf_word(disp); }
                    let leap = match rng.below(10) { 0 => 3, 1 => rng.range(4, 65535), _ => rng.range(0, 2) };
                    let now_real = clk.real_floor(tp);
                    let age: i128 = match rng.below(6) { 0 => 200 * Q, 1 => -5 * Q, _ => rng.range(0, 2 * Q as i64) as i128 };
                    let ref_ns = (now_real - age).max(0);
                    let interval = (5u32 << 25) | (1 << 23); // 16 s -> stale beyond 128 s
                    let phc = if rng.chance(1, 5) { rng.pick(&[1i64, 12345, 500_000]) } else { 0 };
                    parts.push(format!("poll {} {} {} trk {} {} {} {} {} {} {}", ta, tq, tp, leap, ref_ns, offw, dispw, delayw, interval, phc));
                    have_pub = true;
                }
                have_pub = true;
            }
            5 => { parts.push("restart".into()); }
            _ => {
                if !have_pub { continue; }
                let tr = t + rng.pick(&[0i64, 1, 1000, 4_999_999_999, 5_000_000_000, 5_000_000_001, 30_000_000_000, 999_000_000_000, 1_000_500_000_000]) as i128;
                let tm = tr + rng.pick(&[0i64, 0, 1, 500, 40_000_000, 3_000_000_000]) as i128;
                if rng.chance(2, 3) { t = t.max(tr.min(t + 3 * Q)); }
                parts.push(format!("query {} {}", tr, tm));
            }
        }
    }
    parts.join(" ; ")
}
