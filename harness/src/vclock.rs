//! Virtual clocks by symbol interposition: this executable defines `clock_gettime`, so every clock
//! read in the process (clock_gettime_safe, Instant::now, SystemTime::now) goes through here.
//! When the virtual clock is off, the real system call is made.
use std::sync::atomic::{AtomicBool, Ordering};
use std::sync::Mutex;

pub const REALTIME: i32 = 0;
pub const MONOTONIC: i32 = 1;
pub const MONOTONIC_COARSE: i32 = 6;

#[derive(Clone, Copy, Default)]
pub struct Clk {
    pub sec: i64,
    pub nsec: i64,
    /// added (in ns, normalising) after every read of this clock
    pub step_ns: i64,
}

pub struct State {
    pub clocks: [Clk; 16],
    /// every read: (clock id) ; other events can be pushed by hooks as negative ids
    pub log: Vec<i32>,
    /// scripted values: if non-empty for a clock, reads pop from the front instead
    pub script: [Vec<(i64, i64)>; 16],
}

static ON: AtomicBool = AtomicBool::new(false);
/// one-shot action performed by the NEXT virtual clock read, before it returns (e.g. "the daemon publishes now")
static ON_NEXT_READ: Mutex<Option<Box<dyn FnOnce() + Send>>> = Mutex::new(None);
pub fn on_next_read(f: Box<dyn FnOnce() + Send>) { *ON_NEXT_READ.lock().unwrap() = Some(f); }
pub fn cancel_on_next_read() -> bool { ON_NEXT_READ.lock().unwrap().take().is_some() }
static STATE: Mutex<Option<State>> = Mutex::new(None);

pub fn enable() {
    let mut g = STATE.lock().unwrap();
    if g.is_none() {
        *g = Some(State { clocks: [Clk::default(); 16], log: Vec::new(), script: Default::default() });
    }
    ON.store(true, Ordering::SeqCst);
}
pub fn disable() {
    ON.store(false, Ordering::SeqCst);
}
pub fn with<R>(f: impl FnOnce(&mut State) -> R) -> R {
    let was = ON.swap(false, Ordering::SeqCst);
    let r = {
        let mut g = STATE.lock().unwrap();
        if g.is_none() {
            *g = Some(State { clocks: [Clk::default(); 16], log: Vec::new(), script: Default::default() });
        }
        f(g.as_mut().unwrap())
    };
    ON.store(was, Ordering::SeqCst);
    r
}
pub fn set(clk: i32, sec: i64, nsec: i64) {
    with(|s| {
        s.clocks[clk as usize].sec = sec;
        s.clocks[clk as usize].nsec = nsec;
    })
}
/// set a clock from a ns count (normalised)
pub fn set_ns(clk: i32, ns: i128) {
    set(clk, ns.div_euclid(1_000_000_000) as i64, ns.rem_euclid(1_000_000_000) as i64)
}
pub fn set_step(clk: i32, step_ns: i64) {
    with(|s| s.clocks[clk as usize].step_ns = step_ns)
}
pub fn push_script(clk: i32, sec: i64, nsec: i64) {
    with(|s| s.script[clk as usize].push((sec, nsec)))
}
pub fn clear_log() {
    with(|s| s.log.clear())
}
pub fn take_log() -> Vec<i32> {
    with(|s| std::mem::take(&mut s.log))
}
pub fn log_event(ev: i32) {
    if ON.load(Ordering::SeqCst) {
        with(|s| s.log.push(ev))
    }
}

#[no_mangle]
pub unsafe extern "C" fn clock_gettime(clk: libc::clockid_t, ts: *mut libc::timespec) -> libc::c_int {
    if !ON.load(Ordering::SeqCst) || clk < 0 || clk >= 16 {
        return libc::syscall(libc::SYS_clock_gettime, clk as libc::c_long, ts) as libc::c_int;
    }
    if let Ok(mut h) = ON_NEXT_READ.try_lock() {
        if let Some(f) = h.take() { drop(h); f(); }
    }
    let mut g = match STATE.try_lock() {
        Ok(g) => g,
        Err(_) => return libc::syscall(libc::SYS_clock_gettime, clk as libc::c_long, ts) as libc::c_int,
    };
    let s = g.as_mut().unwrap();
    s.log.push(clk);
    let i = clk as usize;
    let (sec, nsec) = if !s.script[i].is_empty() {
        s.script[i].remove(0)
    } else {
        let c = &mut s.clocks[i];
        let v = (c.sec, c.nsec);
        if c.step_ns != 0 {
            let t = c.sec as i128 * 1_000_000_000 + c.nsec as i128 + c.step_ns as i128;
            c.sec = t.div_euclid(1_000_000_000) as i64;
            c.nsec = t.rem_euclid(1_000_000_000) as i64;
        }
        v
    };
    (*ts).tv_sec = sec;
    (*ts).tv_nsec = nsec;
    0
}
