use clock_bound_shm::{ClockErrorBound, ClockStatus, ShmError};
use std::panic;

pub fn status_of(code: i64) -> ClockStatus {
    match code { 1 => ClockStatus::Synchronized, 2 => ClockStatus::FreeRunning, _ => ClockStatus::Unknown }
}
pub fn status_code(s: ClockStatus) -> i64 {
    #[allow(unreachable_patterns)]
    match s { ClockStatus::Unknown => 0, ClockStatus::Synchronized => 1, ClockStatus::FreeRunning => 2, _ => 99 }
}
pub fn ts(sec: i64, nsec: i64) -> libc::timespec { libc::timespec { tv_sec: sec, tv_nsec: nsec } }

pub fn mk_record(f: &[i64]) -> ClockErrorBound {
    // as_sec as_ns va_sec va_ns bound drift reserved status
    ClockErrorBound::new(ts(f[0], f[1]), ts(f[2], f[3]), f[4], f[5] as u32, f[6] as u32, status_of(f[7]))
}

/// canonical text of a record as seen through its raw bytes (fields are private)
pub fn record_fields(r: &ClockErrorBound) -> [i64; 8] {
    let p = r as *const ClockErrorBound as *const u8;
    unsafe {
        let rd64 = |o: usize| std::ptr::read_unaligned(p.add(o) as *const i64);
        let rd32 = |o: usize| std::ptr::read_unaligned(p.add(o) as *const u32) as i64;
        [rd64(0), rd64(8), rd64(16), rd64(24), rd64(32), rd32(40), rd32(44), rd32(48)]
    }
}
pub fn record_text(r: &ClockErrorBound) -> String {
    let f = record_fields(r);
    format!("rec {} {} {} {} {} {} {} {}", f[0], f[1], f[2], f[3], f[4], f[5], f[6], f[7])
}

pub fn shm_err_text(e: &ShmError) -> String {
    match e {
        ShmError::SyscallError(errno, origin) => format!("err sys {} {}", errno.0, origin.to_str().unwrap_or("?").replace(' ', "_")),
        ShmError::SegmentNotInitialized => "err notinit".into(),
        ShmError::SegmentMalformed => "err malformed".into(),
        ShmError::CausalityBreach => "err causality".into(),
        // a kind this harness does not know (a later revision of the enum): reported by its Debug name
        #[allow(unreachable_patterns)]
        other => format!("err other {:?}", other).replace(' ', "_").replacen("err_other_", "err other ", 1),
    }
}

pub fn now_text(r: Result<(libc::timespec, libc::timespec, ClockStatus), ShmError>) -> String {
    match r {
        Ok((e, l, s)) => format!("ok {} {} {} {} {}", e.tv_sec, e.tv_nsec, l.tv_sec, l.tv_nsec, status_code(s)),
        Err(e) => shm_err_text(&e),
    }
}

/// panics of the code under test (inside `guarded`) are expected outcomes and stay silent; a panic of
/// the harness itself is printed.
pub static QUIET: std::sync::atomic::AtomicUsize = std::sync::atomic::AtomicUsize::new(0);
pub fn quiet_panics() {
    panic::set_hook(Box::new(|info| {
        if QUIET.load(std::sync::atomic::Ordering::SeqCst) == 0 { eprintln!("harness panic: {}", info); }
    }));
}
pub fn guarded<R>(f: impl FnOnce() -> R + panic::UnwindSafe) -> Result<R, ()> {
    QUIET.fetch_add(1, std::sync::atomic::Ordering::SeqCst);
    let r = panic::catch_unwind(f);
    QUIET.fetch_sub(1, std::sync::atomic::Ordering::SeqCst);
    r.map_err(|_| ())
}

pub fn parse_ints(toks: &[&str]) -> Vec<i64> {
    toks.iter().map(|t| t.parse::<i64>().unwrap_or_else(|_| panic!("bad int {}", t))).collect()
}

pub fn scratch_dir() -> String {
    let d = format!("/verif/build/run/{}", std::process::id());
    std::fs::create_dir_all(&d).unwrap();
    d
}

/// `ShmWriter::new` never closes the descriptor it maps from (one leaked fd per call). Harmless for
/// the daemon, fatal for a harness that creates thousands of writers: close every descriptor of this
/// process that still refers to `path`.
pub fn close_leaked(path: &str) { close_leaked_os(std::ffi::OsStr::new(path)) }

pub fn close_leaked_os(path: &std::ffi::OsStr) {
    use std::os::unix::ffi::OsStrExt;
    if let Ok(rd) = std::fs::read_dir("/proc/self/fd") {
        let fds: Vec<i32> = rd.filter_map(|e| e.ok()).filter_map(|e| {
            let fd: i32 = e.file_name().to_str()?.parse().ok()?;
            let target = std::fs::read_link(e.path()).ok()?;
            let t = target.as_os_str().as_bytes();
            let t = t.strip_suffix(b" (deleted)").unwrap_or(t);
            if t == path.as_bytes() { Some(fd) } else { None }
        }).collect();
        for fd in fds { unsafe { libc::close(fd); } }
    }
}


// ------------------------------------------------------------------ risky work in a child process
/// Runs `f` in a forked child and returns the text it produced. Whatever the code under test does to the
/// process — aborts (a panic inside an `extern "C"` function), exhausts descriptors or mappings, spins for
/// ever — dies with the child: `crash <wait status>` if it died, `timeout` (child killed) after `limit_s` seconds.
pub fn in_child(limit_s: u64, f: impl FnOnce() -> String) -> String {
    use std::io::Read;
    use std::os::unix::io::FromRawFd;
    let mut fds = [0i32; 2];
    unsafe { if libc::pipe(fds.as_mut_ptr()) != 0 { return "pipe-failed".into(); } }
    let pid = unsafe { libc::fork() };
    if pid < 0 { return "fork-failed".into(); }
    if pid == 0 {
        unsafe { libc::close(fds[0]); }
        let t = match guarded(std::panic::AssertUnwindSafe(f)) { Ok(t) => t, Err(_) => "panic".to_string() };
        unsafe { libc::write(fds[1], t.as_ptr() as *const libc::c_void, t.len()); libc::_exit(0); }
    }
    unsafe { libc::close(fds[1]); }
    let mut pfd = libc::pollfd { fd: fds[0], events: libc::POLLIN, revents: 0 };
    let t0 = raw_mono_secs();
    loop {
        let r = unsafe { libc::poll(&mut pfd, 1, 500) };
        if r > 0 { break; }
        if raw_mono_secs().saturating_sub(t0) >= limit_s {
            unsafe { libc::kill(pid, libc::SIGKILL); let mut st = 0i32; libc::waitpid(pid, &mut st, 0); libc::close(fds[0]); }
            return "timeout".into();
        }
    }
    let mut out = String::new();
    let mut rd = unsafe { std::fs::File::from_raw_fd(fds[0]) };
    let _ = rd.read_to_string(&mut out);
    let mut st = 0i32;
    unsafe { libc::waitpid(pid, &mut st, 0); }
    if out.is_empty() { format!("crash {}", st) } else { out }
}

pub fn watchdog_limit() -> u64 { std::env::var("CBH_WATCHDOG_S").ok().and_then(|s| s.parse().ok()).unwrap_or(120) }

// ------------------------------------------------------------------ watchdog: a request that never returns
//
// C14 / C18 promise that client calls return. A change that makes one spin for ever must not hang the
// check: the request in progress is remembered, and a watchdog thread answers `<request> => hang` in
// its place and ends the process (exit code 3) when it has been running for CBH_WATCHDOG_S seconds
// (default 120; the longest legitimate request, the 32767-update ABA replay, takes well under that).
static CURRENT: std::sync::Mutex<Option<(String, u64)>> = std::sync::Mutex::new(None);

/// seconds of the kernel's CLOCK_MONOTONIC by raw system call: the process's `clock_gettime` symbol is
/// interposed (vclock) and every call through it is logged, so the watchdog must not use it
fn raw_mono_secs() -> u64 {
    let mut ts = libc::timespec { tv_sec: 0, tv_nsec: 0 };
    unsafe { libc::syscall(libc::SYS_clock_gettime, libc::CLOCK_MONOTONIC as libc::c_long, &mut ts as *mut libc::timespec); }
    ts.tv_sec as u64
}

pub fn watch(req: &str) { *CURRENT.lock().unwrap_or_else(|e| e.into_inner()) = Some((req.to_string(), raw_mono_secs())); }
pub fn unwatch() { *CURRENT.lock().unwrap_or_else(|e| e.into_inner()) = None; }

pub fn start_watchdog() {
    let limit: u64 = std::env::var("CBH_WATCHDOG_S").ok().and_then(|s| s.parse().ok()).unwrap_or(120);
    std::thread::spawn(move || loop {
        let nap = libc::timespec { tv_sec: 0, tv_nsec: 500_000_000 };
        unsafe { libc::syscall(libc::SYS_nanosleep, &nap as *const libc::timespec, std::ptr::null_mut::<libc::timespec>()); }
        let cur = CURRENT.lock().unwrap_or_else(|e| e.into_inner()).clone();
        if let Some((req, t0)) = cur {
            if raw_mono_secs().saturating_sub(t0) >= limit {
                let line = format!("{} => hang\n", req);
                unsafe { libc::write(1, line.as_ptr() as *const libc::c_void, line.len()); libc::_exit(3); }
            }
        }
    });
}
