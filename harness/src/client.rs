//! C05 / C06 / C14: the real `ClockErrorBound::now()` under the virtual clock.
use crate::rng::Rng;
use crate::util::*;
use crate::vclock;
use std::panic;

const NS: i64 = 1_000_000_000;

pub fn exec(toks: &[&str]) -> String {
    // client as_sec as_ns va_sec va_ns bound drift status real_sec real_ns mono_sec mono_ns
    let f = parse_ints(&toks[1..]);
    let rec = mk_record(&[f[0], f[1], f[2], f[3], f[4], f[5], 0, f[6]]);
    vclock::set(vclock::REALTIME, f[7], f[8]);
    vclock::set(vclock::MONOTONIC_COARSE, f[9], f[10]);
    vclock::enable();
    let r = guarded(|| rec.now());
    vclock::disable();
    match r { Ok(r) => now_text(r), Err(_) => "panic".into() }
}

fn add_ns(sec: i64, nsec: i64, d: i128) -> (i64, i64) {
    let t = sec as i128 * NS as i128 + nsec as i128 + d;
    (t.div_euclid(NS as i128) as i64, t.rem_euclid(NS as i128) as i64)
}

pub fn gen_case(rng: &mut Rng) -> String {
    let wild = rng.chance(1, 25); // malformed stream: non-normalised / extreme values
    let nsecs = [0i64, 1, 999, 1000, 1001, 500_000_000, 999_999_998, 999_999_999];
    let mut as_sec = match rng.below(8) {
        0 => 0, 1 => 1, 2 => 5, 3 => rng.range(0, 100_000), 4 => rng.range(0, 2_000_000_000),
        5 => rng.range(-2_000_000_000, -1), 6 => rng.pick(&[-1i64, -5, -6, 2147482647, -2147483648]), _ => rng.range(0, 10_000_000),
    };
    let mut as_ns = if rng.chance(1, 2) { rng.pick(&nsecs) } else { rng.range(0, NS - 1) };
    let (mut va_sec, mut va_ns) = match rng.below(6) {
        0 | 1 | 2 => (as_sec + 1000, 0),
        3 => { let (s, n) = add_ns(as_sec, as_ns, 5 * NS as i128 + rng.pick(&[0i64, 1, 2, 1000, NS]) as i128); (s, n) }
        4 => { let (s, n) = add_ns(as_sec, as_ns, rng.range(5 * NS, 2000 * NS) as i128); (s, n) }
        _ => (rng.range(-100, 3_000_000), rng.range(0, NS - 1)),
    };
    let bound = match rng.below(7) {
        0 => 0, 1 => 1, 2 => 10_000, 3 => (1i64 << 60) - 1, 4 => rng.range(0, 1 << 40), 5 => rng.range(0, (1 << 60) - 1), _ => rng.range(0, 100_000_000),
    };
    let drift = match rng.below(10) {
        0 => 0, 1 => 1, 2 => 999, 3 => 1000, 4 => 50_000, 5 => 999_999_999, 6 => rng.pick(&[1_000_000_000i64, 1_000_000_001, 4_294_967_295]),
        7 => rng.range(0, 999_999_999), _ => rng.range(0, 1_000_000),
    };
    let status = rng.range(0, 2);
    // monotonic reading: aimed at thresholds
    let va_off = (va_sec as i128 - as_sec as i128) * NS as i128 + (va_ns as i128 - as_ns as i128);
    let d: i128 = match rng.below(16) {
        0 => rng.pick(&[-1002i64, -1001, -1000, -999, -998, -2, -1, 0, 1, 2]) as i128,
        1 => 5 * NS as i128 + rng.range(-2, 2) as i128,
        2 => va_off + rng.range(-2, 2) as i128,
        3 => rng.range(0, 2000) as i128,
        4 => NS as i128 * rng.range(1, 10) as i128 + rng.range(-1, 1) as i128,
        5 => rng.range(0, 5 * NS) as i128,
        6 => rng.range(5 * NS, 1000 * NS) as i128,
        7 => rng.range(0, 86_400 * NS) as i128,
        8 => rng.range(0, 13 * 86_400) as i128 * NS as i128 + rng.range(0, NS - 1) as i128,
        9 => rng.range(0, 4_000_000_000) as i128 * NS as i128 + rng.range(0, NS - 1) as i128,
        10 => if rng.chance(1, 2) { -(rng.range(0, 10 * NS) as i128) } else {
            // lags whose low 32 bits look like a value inside the blur window
            -((rng.range(1, 3) as i128) << 32) - rng.pick(&[0i64, 1, 500, 999, 1000, 1001]) as i128
        },
        11 => NS as i128 * rng.range(0, 100_000) as i128, // whole seconds
        12 => { // product drift*d/1e9 close to an integer
            let k = rng.range(1, 1_000_000) as i128;
            if drift > 0 { k * NS as i128 / drift as i128 + rng.range(-1, 1) as i128 } else { k }
        }
        _ => rng.range(0, 20 * NS) as i128,
    };
    let (mut mono_sec, mut mono_ns) = add_ns(as_sec, as_ns, d);
    let mut real_sec = match rng.below(4) { 0 => rng.range(0, 2_000_000_000), 1 => 1_700_000_000 + rng.range(0, 100_000_000), 2 => rng.range(-2_147_483_648, 2_147_483_647), _ => rng.range(0, 100) };
    let mut real_ns = if rng.chance(1, 2) { rng.pick(&nsecs) } else { rng.range(0, NS - 1) };
    // keep inside the meaningful range unless wild
    if !wild {
        let clampi = |x: i64| x.clamp(-2_147_483_648, 2_147_483_647);
        as_sec = clampi(as_sec); va_sec = clampi(va_sec); mono_sec = clampi(mono_sec); real_sec = clampi(real_sec);
    } else {
        match rng.below(8) {
            0 => as_ns = rng.pick(&[-1i64, NS, NS + 1, i64::MAX, i64::MIN, -NS]),
            1 => mono_ns = rng.pick(&[-1i64, NS, NS + 1, i64::MAX, i64::MIN, -NS]),
            2 => real_ns = rng.pick(&[-1i64, NS, 2 * NS, i64::MAX, i64::MIN]),
            3 => va_ns = rng.pick(&[-1i64, NS, i64::MAX]),
            4 => as_sec = rng.pick(&[i64::MAX, i64::MIN, 9_223_372_035, 9_223_372_036, -9_223_372_036, 9_223_372_030]),
            5 => mono_sec = rng.pick(&[i64::MAX, i64::MIN, 9_223_372_035, 9_223_372_036, -9_223_372_036]),
            6 => real_sec = rng.pick(&[i64::MAX, i64::MIN, 9_223_372_035, 9_223_372_036, -9_223_372_036, 9_223_372_030]),
            _ => va_sec = rng.pick(&[i64::MAX, i64::MIN]),
        }
    }
    let bound = if wild && rng.chance(1, 3) { rng.pick(&[i64::MAX, i64::MIN, -1, 1 << 62, (1 << 60)]) } else { bound };
    format!("client {} {} {} {} {} {} {} {} {} {} {}", as_sec, as_ns, va_sec, va_ns, bound, drift, status, real_sec, real_ns, mono_sec, mono_ns)
}

/// exhaustive threshold grid for C06/C14: 3 statuses x thresholds x {-1,0,+1} x as_of shapes
pub fn grid() -> Vec<String> {
    let mut v = Vec::new();
    let shapes: [(i64, i64); 8] = [(0, 0), (0, 999), (0, 1000), (0, 1001), (7, 999_999_999), (1000, 0), (-3, 500), (2_000_000_000, 5)];
    let drifts = [0i64, 50_000, 999_999_999, 1_000_000_000];
    for &(s, n) in &shapes {
        for &(vo_s, vo_n) in &[(1000i64, -1i64), (5, 0), (5, 1), (6, 0)] {
            // vo_n = -1 means daemon style (sec+1000, 0)
            let (va_sec, va_ns) = if vo_n < 0 { (s + vo_s, 0) } else { add_ns(s, n, vo_s as i128 * NS as i128 + vo_n as i128) };
            let va_off = (va_sec as i128 - s as i128) * NS as i128 + (va_ns as i128 - n as i128);
            for status in 0..3 {
                for &base in &[-1000i128, 0, 5 * NS as i128, va_off, -(1i128 << 32) - 500, -(2i128 << 32) - 1] {
                    for delta in -1i128..=1 {
                        let (ms, mn) = add_ns(s, n, base + delta);
                        for &drift in &drifts {
                            v.push(format!("client {} {} {} {} {} {} {} {} {} {} {}", s, n, va_sec, va_ns, 10_000, drift, status, 1_700_000_000i64, 123, ms, mn));
                        }
                    }
                }
            }
        }
    }
    v
}

/// client2: one record, one realtime reading, two monotonic readings (the second not earlier)
pub fn exec2(toks: &[&str]) -> String {
    let a: Vec<&str> = toks[..12].to_vec();
    let mut b: Vec<&str> = toks[..12].to_vec();
    b[10] = toks[12]; b[11] = toks[13];
    format!("{} ; {}", exec(&a), exec(&b))
}

pub fn gen_case2(rng: &mut Rng) -> String {
    let base = gen_case(rng);
    let t: Vec<&str> = base.split(' ').collect();
    let ms: i64 = t[10].parse().unwrap();
    let mn: i64 = t[11].parse().unwrap();
    let d: i128 = match rng.below(6) { 0 => 0, 1 => 1, 2 => rng.range(1, 2000) as i128, 3 => NS as i128, 4 => rng.range(0, 100 * NS) as i128, _ => rng.range(0, 86_400 * NS) as i128 };
    let (s2, n2) = if mn >= 0 && mn < NS && ms > -4_000_000_000 && ms < 4_000_000_000 { add_ns(ms, mn, d) } else { (ms, mn) };
    format!("client2 {} {} {}", &base[7..], s2.min(2_147_483_648), n2)
}

/// corder: same fields as `client`; reports the order in which `now()` read the clocks
/// (clock ids: 0 = CLOCK_REALTIME, 6 = CLOCK_MONOTONIC_COARSE) followed by its result
pub fn exec_order(toks: &[&str]) -> String {
    let f = parse_ints(&toks[1..]);
    let rec = mk_record(&[f[0], f[1], f[2], f[3], f[4], f[5], 0, f[6]]);
    vclock::set(vclock::REALTIME, f[7], f[8]);
    vclock::set(vclock::MONOTONIC_COARSE, f[9], f[10]);
    vclock::clear_log();
    vclock::enable();
    let r = guarded(|| rec.now());
    vclock::disable();
    let log: Vec<String> = vclock::take_log().iter().map(|x| x.to_string()).collect();
    format!("log {} ; {}", log.join(" "), match r { Ok(r) => now_text(r), Err(_) => "panic".into() })
}
