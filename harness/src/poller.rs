//! C13 / C12 (daemon half): the real `run_clock_error_bound_poller` with the real
//! `ClockErrorBoundPoller`, driven by a scripted chronyd (verif_hooks::QUERY), scripted clocks
//! (vclock) and a scripted PHC sysfs file.
//!
//! poll <tStart_ns> (nophc | phc <refid>) ; <iter> ; <iter> ...
//!   iter = <as_sec> <as_ns> <tReply_ns> <tGrace_ns> (fnone | fok <v> | funread | fbad)
//!          (none | other | trk <leap> <ref_ns> <offW> <dispW> <delayW> <intervalW> <refid>)
//!   tStart  : CLOCK_MONOTONIC reading of `Instant::now()` in `ClockErrorBoundPoller::default()`
//!   as_*    : CLOCK_MONOTONIC_COARSE value at the top of the iteration (the clock is moved to
//!             another value when the query is issued, so a late read is visible in the as-of)
//!   tReply  : first CLOCK_MONOTONIC read after the reply (taken only if a Tracking body is accepted)
//!   tGrace  : the CLOCK_MONOTONIC read inside `is_within_grace_period` (if it is called)
//!   f...    : state of the PHC sysfs file during the iteration
//! -> one answer per executed iteration, ` ; `-separated:  <msg> @ <log>
//!   msg = data <phc> <as_sec> <as_ns> <leap> <ref_ns> <offW> <dispW> <delayW> <intervalW> <refid>
//!       | nr_grace | nr | phc_grace | phc | panic
//!   log = clock ids read (6 = MONOTONIC_COARSE, 1 = MONOTONIC) and events (-1 query issued,
//!         -2 about to send, -3 about to wait), in the order observed, up to the wait.
use crate::daemon;
use crate::rng::Rng;
use crate::util;
use crate::vclock;
use crate::wire::{self, Trk};
use chrony_candm::reply::{Reply, ReplyBody, Tracking};
use clock_bound_d::channels::new_channel_web;
use clock_bound_d::thread_manager::Context;
use clock_bound_d::{verif_chrony_poller, verif_hooks, ChannelId, Message, PhcInfo};
use std::panic::AssertUnwindSafe;
use std::sync::{Arc, Mutex};
use std::time::Duration;

#[derive(Clone, Debug)]
enum FileSt { NoFile, Ok(String), Unreadable, Unparsable, Blank }
#[derive(Clone, Debug)]
enum Rep { NoReply, Other, Trk(Trk) }
#[derive(Clone, Debug)]
struct It { as_sec: i64, as_ns: i64, t_reply: i64, t_grace: i64, file: FileSt, reply: Rep }

struct Shared {
    iters: Vec<It>,
    /// number of iterations started so far (current iteration = started - 1)
    started: usize,
    logs: Vec<Vec<i32>>,
    path: std::path::PathBuf,
    /// queries issued before the first iteration started (none in the code under test)
    pre_queries: usize,
}

fn scratch() -> String {
    match std::env::var("VERIF_SCRATCH") {
        Ok(d) => { std::fs::create_dir_all(&d).unwrap(); d }
        Err(_) => util::scratch_dir(),
    }
}

fn is_dec(s: &str) -> bool {
    let d = s.strip_prefix('-').unwrap_or(s);
    !d.is_empty() && d.len() <= 40 && d.bytes().all(|b| b.is_ascii_digit())
}

fn parse_iter(t: &[&str]) -> Option<It> {
    if t.len() < 6 { return None; }
    let n = |s: &str| s.parse::<i64>().ok();
    let (as_sec, as_ns, t_reply, t_grace) = (n(t[0])?, n(t[1])?, n(t[2])?, n(t[3])?);
    let (file, rest) = match t[4] {
        "fnone" => (FileSt::NoFile, &t[5..]),
        "funread" => (FileSt::Unreadable, &t[5..]),
        "fbad" => (FileSt::Unparsable, &t[5..]),
        "fblank" => (FileSt::Blank, &t[5..]),
        "fok" if is_dec(t[5]) => (FileSt::Ok(t[5].to_string()), &t[6..]),
        _ => return None,
    };
    let reply = match rest {
        ["none"] => Rep::NoReply,
        ["other"] => Rep::Other,
        ["trk", f @ ..] if f.len() >= 7 && f.len() <= 9 => {
            let v: Option<Vec<i64>> = f.iter().map(|s| n(s)).collect();
            let v = v?;
            if v[1] < 0 { return None; }
            Rep::Trk(Trk { leap: v[0] as u16, ref_ns: v[1], off: v[2] as u32, disp: v[3] as u32, delay: v[4] as u32, interval: v[5] as u32, refid: v[6] as u32, ip4: v.get(7).and_then(|x| if *x < 0 { None } else { Some(*x as u32) }), stratum: v.get(8).map(|x| *x as u16) })
        }
        _ => return None,
    };
    Some(It { as_sec, as_ns, t_reply, t_grace, file, reply })
}

/// the wire words of a `Tracking` as the daemon holds it (re-serialised by chrony-candm)
fn tracking_text(t: Tracking) -> String {
    let mut r: Reply = wire::reply(&Trk::default());
    r.body = ReplyBody::Tracking(t);
    let mut b = Vec::new();
    r.serialize(&mut b);
    let o = 28;
    let u16at = |i: usize| u16::from_be_bytes([b[o + i], b[o + i + 1]]) as i64;
    let u32at = |i: usize| u32::from_be_bytes([b[o + i], b[o + i + 1], b[o + i + 2], b[o + i + 3]]) as i64;
    let sec = ((u32at(28) as i32 as i64) << 32) | u32at(32);
    let ref_ns = sec as i128 * 1_000_000_000 + u32at(36) as i128;
    format!("{} {} {} {} {} {} {}", u16at(26), ref_ns, u32at(40), u32at(68), u32at(64), u32at(72), u32at(0))
}

fn msg_text(m: Message) -> String {
    match m {
        Message::ClockErrorBoundData((t, phc, as_of)) => format!("data {} {} {} {}", phc, as_of.tv_sec, as_of.tv_nsec, tracking_text(t)),
        Message::ChronyNotRespondingGracePeriod => "nr_grace".into(),
        Message::ChronyNotResponding => "nr".into(),
        Message::PhcErrorBoundRetrievalFailedGracePeriod => "phc_grace".into(),
        Message::PhcErrorBoundRetrievalFailed => "phc".into(),
        other => format!("unexpected:{:?}", other).replace(' ', "_"),
    }
}

fn set_file(path: &std::path::Path, st: &FileSt) {
    match st {
        FileSt::Ok(v) => std::fs::write(path, format!("{}\n", v)).unwrap(),
        FileSt::Unparsable => std::fs::write(path, "not_an_i64\n").unwrap(),
        FileSt::Blank => std::fs::write(path, "  \n").unwrap(),
        FileSt::Unreadable | FileSt::NoFile => { let _ = std::fs::remove_file(path); }
    }
}

fn clear_mono_script() { vclock::with(|s| s.script[vclock::MONOTONIC as usize].clear()); }

pub fn exec(_toks: &[&str], line: &str) -> Option<String> {
    let parts: Vec<&str> = line.split(';').map(|s| s.trim()).collect();
    let head: Vec<&str> = parts[0].split_whitespace().collect();
    // `pollr` = the same scenario through the thread's real entry point `chrony_poller::run`
    let real_entry = head.first() == Some(&"pollr");
    let (t_start, refid): (i64, Option<u32>) = match head[..] {
        ["poll" | "pollr", ts, "nophc"] => (ts.parse().ok()?, None),
        ["poll" | "pollr", ts, "phc", r] => (ts.parse().ok()?, Some(r.parse::<i64>().ok()? as u32)),
        _ => return None,
    };
    let mut iters = Vec::new();
    for p in &parts[1..] {
        let t: Vec<&str> = p.split_whitespace().collect();
        if t.is_empty() { continue; }
        iters.push(parse_iter(&t)?);
    }
    if iters.is_empty() { return None; }
    let n = iters.len();

    // channels: the poller's own mailbox is pre-filled so that it runs exactly n iterations
    let (mut mboxes, dbox) = new_channel_web::<ChannelId, Message>(vec![ChannelId::ClockErrorBoundPoller, ChannelId::ShmWriter, ChannelId::MainThread]);
    let shm_mailbox = mboxes.get_mailbox(&ChannelId::ShmWriter).unwrap();
    let mbox = mboxes.get_mailbox(&ChannelId::ClockErrorBoundPoller).unwrap();
    let _main = mboxes.get_mailbox(&ChannelId::MainThread).unwrap();
    for _ in 0..n - 1 {
        dbox.send(&ChannelId::ClockErrorBoundPoller, Message::ChronyNotRespondingGracePeriod).unwrap();
    }
    dbox.send(&ChannelId::ClockErrorBoundPoller, Message::ThreadAbort).unwrap();
    let ctx = Context { mbox, dbox: dbox.clone(), channel_id: ChannelId::ClockErrorBoundPoller };

    let path = std::path::PathBuf::from(format!("{}/phc_error_bound", scratch()));
    let phc_info = refid.map(|r| PhcInfo { refid: r, sysfs_error_bound_path: path.clone() });
    let sh = Arc::new(Mutex::new(Shared { iters, started: 0, logs: Vec::new(), path: path.clone(), pre_queries: 0 }));

    // program points of the loop
    let shp = sh.clone();
    *verif_hooks::POINT.write().unwrap_or_else(|e| e.into_inner()) = Some(Box::new(move |name: &'static str| {
        match name {
            "poller:top" => {
                let mut s = shp.lock().unwrap();
                if s.started > 0 { let l = vclock::take_log(); s.logs.push(l); }
                if s.started >= s.iters.len() { return true; } // never: the mailbox ends the run first
                let it = s.iters[s.started].clone();
                s.started += 1;
                set_file(&s.path, &it.file);
                clear_mono_script();
                vclock::set(vclock::MONOTONIC_COARSE, it.as_sec, it.as_ns);
                // the poller has no business with the system clock: CLOCK_REALTIME is stepped by an hour, back and forth, from one
                // iteration to the next (chronyd stepping the clock, a VM resumed), always later than the usual reference times
                vclock::set_ns(vclock::REALTIME, 1_700_000_002_000_000_000i128 + if s.started % 2 == 0 { 3_600_000_000_000 } else { 0 });
                vclock::clear_log();
                false
            }
            "poller:send" => { vclock::log_event(-2); clear_mono_script(); false }
            "poller:wait" => { vclock::log_event(-3); clear_mono_script(); false }
            _ => false,
        }
    }));
    // scripted chronyd
    let shq = sh.clone();
    *verif_hooks::QUERY.lock().unwrap_or_else(|e| e.into_inner()) = Some(Box::new(move |_req, _opts| {
        vclock::log_event(-1);
        let it = { let mut s = shq.lock().unwrap(); if s.started == 0 { s.pre_queries += 1; } s.iters[s.started.max(1) - 1].clone() };
        // from now on CLOCK_MONOTONIC_COARSE shows another value: an as-of read taken late is visible
        vclock::set(vclock::MONOTONIC_COARSE, it.as_sec.wrapping_add(1), it.as_ns);
        clear_mono_script();
        let push = |ns: i64| vclock::push_script(vclock::MONOTONIC, ns.div_euclid(1_000_000_000), ns.rem_euclid(1_000_000_000));
        match it.reply {
            Rep::NoReply => { push(it.t_grace); Err(std::io::Error::new(std::io::ErrorKind::NotFound, "scripted: chronyd is not there")) }
            Rep::Other => { push(it.t_grace); Ok(wire::other_reply()) }
            Rep::Trk(t) => { push(it.t_reply); push(it.t_grace); Ok(wire::reply(&t)) }
        }
    }));

    clear_mono_script();
    vclock::set_ns(vclock::MONOTONIC, t_start as i128); // read by `Default`, and (harmlessly) by recv_timeout
    vclock::set(vclock::MONOTONIC_COARSE, 0, 0);
    vclock::clear_log();
    vclock::enable();
    let r = util::guarded(AssertUnwindSafe(|| if real_entry { verif_chrony_poller::run_entry(ctx, phc_info) } else { verif_chrony_poller::run_poller(ctx, phc_info, Duration::from_millis(1)) }));
    vclock::disable();
    let last_log = vclock::take_log();
    clear_mono_script();
    *verif_hooks::POINT.write().unwrap_or_else(|e| e.into_inner()) = None;
    *verif_hooks::QUERY.lock().unwrap_or_else(|e| e.into_inner()) = None;
    let _ = std::fs::remove_file(&path);

    let mut logs = { let mut s = sh.lock().unwrap(); std::mem::take(&mut s.logs) };
    let started = sh.lock().unwrap().started;
    if logs.len() < started { logs.push(last_log); }
    let msgs: Vec<Message> = shm_mailbox.try_iter().collect();
    let mut out = Vec::new();
    // a query issued before the first iteration belongs to the first report's history
    let pre = sh.lock().unwrap().pre_queries;
    if let Some(l0) = logs.first_mut() { for _ in 0..pre { l0.insert(0, -1); } }
    for (i, log) in logs.iter().enumerate() {
        let m = match msgs.get(i) {
            Some(m) => msg_text(m.clone()),
            None if r.is_err() && i == msgs.len() => "panic".into(),
            None => "missing".into(),
        };
        // the log of an iteration ends with the wait marker; what follows is recv_timeout's own read
        let cut = log.iter().position(|&e| e == -3).map(|p| p + 1).unwrap_or(log.len());
        let l: Vec<String> = log[..cut].iter().map(|e| e.to_string()).collect();
        out.push(format!("{} @ {}", m, l.join(" ")));
    }
    if msgs.len() > logs.len() { out.push(format!("extra-messages {}", msgs.len() - logs.len())); }
    if r.is_err() && msgs.len() >= logs.len() { out.push("panic @".into()); }
    Some(out.join(" ; "))
}

// ---------------------------------------------------------------- generators

const G: i64 = 5_000_000_000;
const PHC0: u32 = 0x5048_4330;

fn trk_text(t: &Trk) -> String {
    if let Some(st) = t.stratum {
        return format!("trk {} {} {} {} {} {} {} {} {}", t.leap, t.ref_ns, t.off, t.disp, t.delay, t.interval, t.refid, t.ip4.map(|a| a as i64).unwrap_or(-1), st);
    }
    match t.ip4 {
        None => format!("trk {} {} {} {} {} {} {}", t.leap, t.ref_ns, t.off, t.disp, t.delay, t.interval, t.refid),
        Some(a) => format!("trk {} {} {} {} {} {} {} {}", t.leap, t.ref_ns, t.off, t.disp, t.delay, t.interval, t.refid, a),
    }
}
fn iter_text(as_of: i64, t_reply: i64, t_grace: i64, file: &str, reply: &str) -> String {
    format!("{} {} {} {} {} {}", as_of.div_euclid(1_000_000_000), as_of.rem_euclid(1_000_000_000), t_reply, t_grace, file, reply)
}
fn simple_trk(refid: u32) -> Trk {
    Trk { leap: 0, ref_ns: 1_700_000_000_000_000_000, off: 0x0200_0000 | 0x000a_0000, disp: 0x0400_0000 | 0x00b0_0000, delay: 0x0600_0000 | 0x00c0_0000, interval: (4u32 << 25) | (1 << 23), refid, ip4: None, stratum: None }
}

/// deterministic boundary grid: the 5 s threshold +-1 ns after an answer and at start-up, both
/// kinds of silence, PHC failure timing, reference ids equal / off by one / zero, PHC values
pub fn grid() -> Vec<String> {
    let mut v = Vec::new();
    let sil = ["none", "other"];
    for &t0 in &[0i64, 1, 4_999_999_999, 5_000_000_000, 123_456_789_012_345] {
        // start-up silences: Unknown-class at once
        for &d in &[0i64, 1, 999_999, G - 1, G, G + 1, 100 * G] {
            for s in sil {
                v.push(format!("poll {} nophc ; {}", t0, iter_text(t0, t0 + d, t0 + d, "fnone", s)));
            }
        }
        v.push(format!("poll {} phc {} ; {} ; {} ; {}", t0, PHC0,
            iter_text(t0, t0, t0, "fok 12345", "none"), iter_text(t0 + 1, t0 + 1, t0 + 1, "funread", "other"), iter_text(t0 + G, t0 + G, t0 + G, "fbad", "none")));
        // an answer at t0+1 s, then silences around +5 s
        let a = t0 + 1_000_000_000;
        for &d in &[-1i64, 0, 1] {
            for s in sil {
                v.push(format!("poll {} nophc ; {} ; {}", t0, iter_text(a, a, a, "fnone", &trk_text(&simple_trk(0))), iter_text(a + G, a + G + d, a + G + d, "fnone", s)));
            }
        }
        // -1, 0, +1 in one run, then a new answer, then again
        let t = trk_text(&simple_trk(7));
        v.push(format!("poll {} phc 8 ; {} ; {} ; {} ; {} ; {} ; {} ; {}", t0,
            iter_text(a, a, a + 5, "fok 1", &t),
            iter_text(a + 1, 0, a + G - 1, "fok 1", "none"), iter_text(a + 2, 0, a + G, "fok 1", "other"), iter_text(a + 3, 0, a + G + 1, "fok 1", "none"),
            iter_text(a + 4, a + 2 * G, a + 2 * G, "fok 1", &t),
            iter_text(a + 5, 0, a + 3 * G - 1, "fok 1", "other"), iter_text(a + 6, 0, a + 3 * G, "fok 1", "none")));
        // PHC: matching / off by one / zero reference ids x file states x PHC values
        for &(cfg, rep) in &[(PHC0, PHC0), (PHC0, PHC0 + 1), (PHC0, PHC0 - 1), (PHC0, 0), (0, 0), (0, 1), (1, 0), (u32::MAX, u32::MAX), (u32::MAX, 0)] {
            for f in ["fok 0", "fok 1", "fok 12345", "fok 1099511627776", "fok -1", "fok 9223372036854775807", "funread", "fbad"] {
                v.push(format!("poll {} phc {} ; {}", t0, cfg, iter_text(a, a, a + 1000, f, &trk_text(&simple_trk(rep)))));
            }
            v.push(format!("poll {} nophc ; {}", t0, iter_text(a, a, a + 1000, "fnone", &trk_text(&simple_trk(rep)))));
        }
        // every single-bit neighbour of the configured reference id (incl. the ASCII letter-case bits),
        // its byte-swapped and rotated forms: only the exact id may match
        if t0 == 0 {
            let mut reps: Vec<u32> = (0..32).map(|b| PHC0 ^ (1u32 << b)).collect();
            reps.extend([PHC0.swap_bytes(), PHC0.rotate_left(8), PHC0.rotate_right(8), PHC0 ^ 0x2020_2000, PHC0 | 0x2020_2020, PHC0 & 0xffff_ff00]);
            for rep in reps {
                for f in ["fok 12345", "funread"] {
                    v.push(format!("poll {} phc {} ; {}", t0, PHC0, iter_text(a, a, a + 1000, f, &trk_text(&simple_trk(rep)))));
                }
            }
        }
        if t0 == 0 {
            // the report's source address spells the reference id (or anything else): irrelevant to the match
            for ip in [PHC0, 0, 1, u32::MAX] {
                for f in ["fok 12345", "funread"] {
                    let t = Trk { ip4: Some(ip), ..simple_trk(PHC0) };
                    v.push(format!("poll {} phc {} ; {}", t0, PHC0, iter_text(a, a, a + 1000, f, &trk_text(&t))));
                }
            }
            // the stratum chronyd reports for itself (refclock stratum + 1, 16 = unsynchronised, …): irrelevant to the match
            for st in [0u16, 2, 3, 15, 16, 65535] {
                for f in ["fok 12345", "funread"] {
                    let t = Trk { stratum: Some(st), ..simple_trk(PHC0) };
                    v.push(format!("poll {} phc {} ; {}", t0, PHC0, iter_text(a, a, a + 1000, f, &trk_text(&t))));
                }
            }
            // an empty / whitespace-only sysfs attribute is not a number
            v.push(format!("poll {} phc {} ; {} ; {}", t0, PHC0, iter_text(a, a, a, "fblank", &trk_text(&simple_trk(PHC0))), iter_text(a + 1, a + 1, a + 1, "fok 1", &trk_text(&simple_trk(PHC0)))));
            // a reference time in the future, with and without a matching PHC: passed on untouched
            for (cfg, f) in [(Some(PHC0), "fok 12345"), (Some(PHC0 + 1), "fok 12345"), (None, "fnone")] {
                for lead in [2_000_000_000i64, 3_600_000_000_000] {
                    let t = Trk { ref_ns: 1_700_000_000_000_000_000 + lead, ..simple_trk(PHC0) };
                    let head = match cfg { Some(c) => format!("poll {} phc {}", t0, c), None => format!("poll {} nophc", t0) };
                    v.push(format!("{} ; {}", head, iter_text(a, a, a + 1000, f, &trk_text(&t))));
                }
            }
            // consecutive polls with the SAME report while the PHC's own bound changes / becomes unreadable
            let same = trk_text(&simple_trk(PHC0));
            v.push(format!("poll {} phc {} ; {} ; {} ; {} ; {}", t0, PHC0,
                iter_text(a, a, a, "fok 1000", &same), iter_text(a + G, a + G, a + G, "fok 25000", &same),
                iter_text(a + 2 * G, a + 2 * G, a + 2 * G, "fok 400000", &same), iter_text(a + 3 * G, a + 3 * G, a + 3 * G, "funread", &same)));
            // outages of k * 2^32 ms (49.7 days): the age must not be truncated
            let w: i64 = 4_294_967_296 * 1_000_000;
            for k in [1i64, 2] {
                for d in [-1i64, 0, 1, 2_500_000_000, G - 1, G, 100 * G] {
                    for s in sil {
                        v.push(format!("poll {} nophc ; {} ; {}", t0, iter_text(a, a, a, "fnone", &trk_text(&simple_trk(0))), iter_text(a + 1, 0, a + k * w + d, "fnone", s)));
                    }
                }
                v.push(format!("poll {} phc {} ; {} ; {}", t0, PHC0, iter_text(a, a, a, "fok 5", &trk_text(&simple_trk(PHC0))),
                    iter_text(a + 1, a + k * w, a + k * w + 1_000_000, "funread", &trk_text(&simple_trk(PHC0)))));
            }
        }
        // PHC read failure with a slow sysfs read: the grace read 5 s -1/0/+1 ns after the reply
        for &d in &[-1i64, 0, 1, G] {
            v.push(format!("poll {} phc {} ; {} ; {}", t0, PHC0,
                iter_text(a, a, a + G + d, "funread", &trk_text(&simple_trk(PHC0))),
                iter_text(a + 1, 0, a + 2 * G + d, "funread", "none")));
        }
        // unparsable contents end the run; the messages before are kept
        v.push(format!("poll {} phc {} ; {} ; {} ; {}", t0, PHC0,
            iter_text(a, a, a, "fok 12345", &trk_text(&simple_trk(PHC0))),
            iter_text(a + 1, a + 1, a + 1, "fbad", &trk_text(&simple_trk(PHC0))),
            iter_text(a + 2, a + 2, a + 2, "fok 12345", &trk_text(&simple_trk(PHC0)))));
        v.push(format!("poll {} phc {} ; {}", t0, PHC0, iter_text(a, a, a, "fok 9223372036854775808", &trk_text(&simple_trk(PHC0)))));
    }
    v
}

pub fn gen_poll(rng: &mut Rng) -> String {
    let t_start: i64 = match rng.below(6) {
        0 => rng.pick(&[0i64, 1, G - 1, G, G + 1]),
        1 => rng.range(0, 10_000_000_000),
        _ => rng.range(0, 2_000_000_000_000_000),
    };
    let cfg: Option<u32> = match rng.below(6) {
        0 | 1 => None,
        2 => Some(0),
        3 => Some(rng.pick(&[1u32, u32::MAX, 0x5048_4331])),
        _ => Some(PHC0),
    };
    let monotone = !rng.chance(1, 10);
    let len = match rng.below(4) { 0 => rng.range(1, 3), _ => rng.range(1, 12) };
    // start-up silences: with probability 1/3 the run begins with a burst of silences
    let mut startup = if rng.chance(1, 3) { rng.range(1, 4) } else { 0 };
    let mut now = t_start;                 // latest Instant reading so far
    let mut last: Option<i64> = None;      // acceptance time of the latest Tracking reply
    let mut coarse = rng.range(0, 4_000_000_000_000_000);
    let mut parts = vec![match cfg { Some(r) => format!("poll {} phc {}", t_start, r), None => format!("poll {} nophc", t_start) }];
    let mut pending: Vec<i64> = Vec::new(); // queued boundary offsets for successive silences
    for _ in 0..len {
        coarse += rng.range(0, 2_000_000_000);
        let file = match cfg {
            None => "fnone".to_string(),
            Some(_) => match rng.below(20) {
                0..=11 => format!("fok {}", rng.pick(&[0i64, 1, 12345, 1 << 40])),
                12 => format!("fok {}", rng.range(-5, 4_000_000_000)),
                13..=18 => "funread".into(),
                _ => "fbad".into(),
            },
        };
        let silence = startup > 0 || !pending.is_empty() || rng.chance(2, 5);
        if startup > 0 { startup -= 1; }
        if silence {
            let base = last.unwrap_or(t_start);
            let cand = if let Some(d) = pending.pop() { base + G + d } else {
                match rng.below(8) {
                    0 => { pending = vec![1, 0]; base + G - 1 }          // -1, 0, +1 in a row
                    1 => base + G + rng.pick(&[-1i64, 0, 1]),
                    2 => base + G + rng.range(2, 1_000_000_000_000),     // far beyond
                    3 => base + rng.range(0, G - 2),                     // well inside
                    4 => base + rng.pick(&[0i64, 1, -1, -G, -G + 1]),    // at / before the base (backwards unless clamped)
                    _ => now + rng.range(0, 3_000_000_000),
                }
            };
            let t_grace = if monotone { cand.max(now) } else { cand.max(0) };
            now = now.max(t_grace);
            let kind = if rng.chance(1, 3) { "other" } else { "none" };
            // tReply is not read in a silent iteration
            parts.push(iter_text(coarse, rng.pick(&[0i64, t_grace]), t_grace, &file, kind));
        } else {
            let (mut t, _) = daemon::gen_trk(rng);
            t.refid = match (cfg, rng.below(8)) {
                (Some(r), 0..=3) => r,
                (Some(r), 4) => r.wrapping_add(1),
                (Some(r), 5) => r.wrapping_sub(1),
                (_, 6) => 0,
                _ => { let r = rng.next() as u32; rng.pick(&[PHC0, 1, r]) }
            };
            if rng.chance(1, 5) { t.stratum = Some(rng.pick(&[0u16, 2, 3, 10, 16])); }
            let step = rng.range(0, 3_000_000_000);
            let t_reply = if monotone { now + step } else { (now + step - rng.pick(&[0i64, 0, 2 * G])).max(0) };
            let t_grace = t_reply + match rng.below(10) {
                0 => rng.pick(&[G - 1, G, G + 1]),
                1 => rng.range(G, 3 * G),
                2 => 0,
                _ => rng.range(1, 50_000_000),
            };
            // the grace read happens only on a PHC read failure; otherwise time moves to tReply only
            let matches = cfg == Some(t.refid);
            now = now.max(t_reply);
            if matches && file == "funread" { now = now.max(t_grace); }
            last = Some(t_reply);
            parts.push(iter_text(coarse, t_reply, t_grace, &file, &trk_text(&t)));
        }
    }
    parts.join(" ; ")
}
