/*
 * C17: a C client of libclockbound, compiled against clock-bound-ffi/include/clockbound.h and
 * linked against the cdylib built from /repo's working tree.
 *
 * The program DEFINES clock_gettime (exported with -rdynamic), so the calls libclockbound.so makes
 * resolve to the definition below (the executable comes first in the dynamic lookup order).  While
 * `virt_on` is set, CLOCK_REALTIME and CLOCK_MONOTONIC_COARSE (and CLOCK_MONOTONIC) return the
 * virtual readings of the current request; every read is counted.
 *
 * Requests on stdin, one per line; one answer line per request on stdout:
 *   copen <path>                                   -> ok | ok leak <maps> <fds> | err <kind> <errno> <detail|->
 *                                                     (after a successful open/close, eight more open/close cycles
 *                                                      must not grow the process's mappings or descriptors)
 *   cnow <path> <real_s> <real_ns> <mono_s> <mono_ns>
 *                                                  -> ok <e_s> <e_ns> <l_s> <l_ns> <status>
 *                                                   | err <kind> <errno> <detail|->        (error of clockbound_now)
 *                                                   | openerr <kind> <errno> <detail|->    (error of clockbound_open)
 *   sopen <path>                                   -> ok | err <kind> <errno> <detail|->   (the context stays open:)
 *   snow <real_s> <real_ns> <mono_s> <mono_ns>     -> <clock ids read, in order> : ok … | err …    (clockbound_now on it)
 *   snoww <4 ints> <path> <hex: generation word + record>   the same, and at the FIRST clock read of the call the given bytes are
 *                                                  written to the segment file (the daemon publishes while the client is in its call)
 *   sclose                                         -> ok | closeerr …
 *   abi                                            -> abi <sizeof, (offset size)* of clockbound_err> ; <same of clockbound_now_result> ; <err kinds> ; <status values>
 *   ping                                           -> pong <clock reads intercepted so far>
 */
#define _GNU_SOURCE
#include <stdio.h>
#include <stdlib.h>
#include <string.h>
#include <stddef.h>
#include <time.h>
#include <unistd.h>
#include <fcntl.h>
#include <sys/syscall.h>
#include "clockbound.h"

static int virt_on = 0;
static struct timespec v_real, v_mono;
static long reads_real = 0, reads_mono = 0, reads_other = 0;
/* order of the clock reads of the current request (clock ids), for the session requests */
static int read_log[64]; static int read_n = 0;
static void log_read(clockid_t clk) { if (read_n < 64) read_log[read_n++] = (int)clk; }
static clockbound_ctx *session_ctx = NULL;

/* one-shot: bytes to write into the segment file at the next intercepted clock read */
static char pend_path[4096]; static unsigned char pend_img[128]; static int pend_n = 0;
static void pend_flush(void)
{
	if (pend_n <= 0) return;
	int fd = open(pend_path, O_WRONLY);
	if (fd >= 0) { if (pwrite(fd, pend_img + 2, (size_t)pend_n - 2, 16) < 0 || pwrite(fd, pend_img, 2, 14) < 0) { /* reported by the answer differing */ } close(fd); }
	pend_n = 0;
}

int clock_gettime(clockid_t clk, struct timespec *ts)
{
	if (virt_on && pend_n > 0) pend_flush();
	if (virt_on) log_read(clk);
	if (virt_on && clk == CLOCK_REALTIME) { *ts = v_real; reads_real++; return 0; }
	if (virt_on && (clk == CLOCK_MONOTONIC_COARSE || (virt_on == 1 && clk == CLOCK_MONOTONIC))) { *ts = v_mono; reads_mono++; return 0; }
	if (virt_on == 2) { ts->tv_sec = 0; ts->tv_nsec = 0; reads_other++; return 0; }   /* session: any other clock reads 0 */
	reads_other++;
	return (int)syscall(SYS_clock_gettime, (long)clk, ts);
}

/* number of mappings and of open descriptors of this process */
static void res_counts(long *maps, long *fds)
{
	char buf[4096]; size_t n; long lines = 0;
	FILE *f = fopen("/proc/self/maps", "r");
	if (f) { while ((n = fread(buf, 1, sizeof buf, f)) > 0) for (size_t i = 0; i < n; i++) if (buf[i] == '\n') lines++; fclose(f); }
	*maps = lines;
	long c = 0;
	for (int fd = 0; fd < 1024; fd++) { if (fcntl(fd, F_GETFD) != -1) c++; }
	*fds = c;
}

static const char *kind_name(clockbound_err_kind k, char *buf, size_t n)
{
	switch (k) {
	case CLOCKBOUND_ERR_NONE: return "none";
	case CLOCKBOUND_ERR_SYSCALL: return "syscall";
	case CLOCKBOUND_ERR_SEGMENT_NOT_INITIALIZED: return "notinit";
	case CLOCKBOUND_ERR_SEGMENT_MALFORMED: return "malformed";
	case CLOCKBOUND_ERR_CAUSALITY_BREACH: return "causality";
	default: break;   /* an enumerator this client does not know: printed by number */
	}
	snprintf(buf, n, "kind%d", (int)k);
	return buf;
}

static void print_err(const char *tag, const clockbound_err *e)
{
	char kb[32], det[128];
	if (e->detail == NULL) { strcpy(det, "-"); }
	else {
		size_t i;
		for (i = 0; i + 1 < sizeof det && e->detail[i]; i++) det[i] = e->detail[i] == ' ' ? '_' : e->detail[i];
		det[i] = 0;
		if (i == 0) strcpy(det, "-");
	}
	printf("%s %s %d %s\n", tag, kind_name(e->kind, kb, sizeof kb), e->sys_errno, det);
}

int main(void)
{
	char line[8192], path[4096];
	setvbuf(stdout, NULL, _IOLBF, 0);
	while (fgets(line, sizeof line, stdin)) {
		long long rs, rn, ms, mn;
		if (sscanf(line, "copen %4095s", path) == 1) {
			clockbound_err err; memset(&err, 0x5a, sizeof err);
			clockbound_ctx *ctx = clockbound_open(path, &err);
			if (ctx == NULL) { print_err("err", &err); }
			else {
				const clockbound_err *ce = clockbound_close(ctx);
				if (ce != NULL) { print_err("closeerr", ce); continue; }
				/* "closes and deallocates": further open/close cycles leave the process's resources where they were */
				long m0, f0, m1, f1; int bad = 0;
				res_counts(&m0, &f0);
				for (int k = 0; k < 8 && !bad; k++) {
					clockbound_ctx *c2 = clockbound_open(path, &err);
					if (c2 == NULL || clockbound_close(c2) != NULL) bad = 1;
				}
				res_counts(&m1, &f1);
				if (bad) printf("ok reopen-failed\n");
				else if (m1 - m0 >= 4 || f1 - f0 >= 4) printf("ok leak %ld %ld\n", m1 - m0, f1 - f0);
				else printf("ok\n");
			}
		} else if (sscanf(line, "cnow %4095s %lld %lld %lld %lld", path, &rs, &rn, &ms, &mn) == 5) {
			clockbound_err err; memset(&err, 0x5a, sizeof err);
			clockbound_ctx *ctx = clockbound_open(path, &err);
			if (ctx == NULL) { print_err("openerr", &err); continue; }
			clockbound_now_result res; memset(&res, 0x5a, sizeof res);
			v_real.tv_sec = rs; v_real.tv_nsec = rn; v_mono.tv_sec = ms; v_mono.tv_nsec = mn;
			long r0 = reads_real, m0 = reads_mono;
			virt_on = 1;
			const clockbound_err *e = clockbound_now(ctx, &res);
			virt_on = 0;
			if (e != NULL) print_err("err", e);
			else if (reads_real - r0 != 1 || reads_mono - m0 != 1)
				printf("interpose-failed %ld %ld\n", reads_real - r0, reads_mono - m0);
			else printf("ok %lld %lld %lld %lld %d\n", (long long)res.earliest.tv_sec, (long long)res.earliest.tv_nsec,
				    (long long)res.latest.tv_sec, (long long)res.latest.tv_nsec, (int)res.clock_status);
			const clockbound_err *ce = clockbound_close(ctx);
			if (ce != NULL) print_err("closeerr", ce);
		} else if (sscanf(line, "sopen %4095s", path) == 1) {
			clockbound_err err; memset(&err, 0x5a, sizeof err);
			if (session_ctx != NULL) { clockbound_close(session_ctx); session_ctx = NULL; }
			session_ctx = clockbound_open(path, &err);
			if (session_ctx == NULL) print_err("err", &err); else printf("ok\n");
		} else if (sscanf(line, "snow %lld %lld %lld %lld", &rs, &rn, &ms, &mn) == 4) {
			if (session_ctx == NULL) { printf("closed\n"); continue; }
			clockbound_now_result res; memset(&res, 0x5a, sizeof res);
			v_real.tv_sec = rs; v_real.tv_nsec = rn; v_mono.tv_sec = ms; v_mono.tv_nsec = mn;
			read_n = 0;
			virt_on = 2;
			const clockbound_err *e = clockbound_now(session_ctx, &res);
			virt_on = 0;
			for (int k = 0; k < read_n; k++) printf("%d ", read_log[k]);
			printf(": ");
			if (e != NULL) print_err("err", e);
			else printf("ok %lld %lld %lld %lld %d\n", (long long)res.earliest.tv_sec, (long long)res.earliest.tv_nsec,
				    (long long)res.latest.tv_sec, (long long)res.latest.tv_nsec, (int)res.clock_status);
		} else if (strncmp(line, "snoww ", 6) == 0) {
			char hex[512];
			if (sscanf(line, "snoww %lld %lld %lld %lld %4095s %511s", &rs, &rn, &ms, &mn, pend_path, hex) != 6) { printf("bad-request\n"); continue; }
			if (session_ctx == NULL) { printf("closed\n"); continue; }
			size_t hl = strlen(hex); pend_n = 0;
			for (size_t k = 0; k + 1 < hl && pend_n < (int)sizeof pend_img; k += 2) { unsigned v; sscanf(hex + k, "%2x", &v); pend_img[pend_n++] = (unsigned char)v; }
			clockbound_now_result res; memset(&res, 0x5a, sizeof res);
			v_real.tv_sec = rs; v_real.tv_nsec = rn; v_mono.tv_sec = ms; v_mono.tv_nsec = mn;
			read_n = 0;
			virt_on = 2;
			const clockbound_err *e = clockbound_now(session_ctx, &res);
			virt_on = 0;
			pend_flush();   /* a call that read no clock: publish now, the session goes on from the same state */
			for (int k = 0; k < read_n; k++) printf("%d ", read_log[k]);
			printf(": ");
			if (e != NULL) print_err("err", e);
			else printf("ok %lld %lld %lld %lld %d\n", (long long)res.earliest.tv_sec, (long long)res.earliest.tv_nsec,
				    (long long)res.latest.tv_sec, (long long)res.latest.tv_nsec, (int)res.clock_status);
		} else if (strncmp(line, "sclose", 6) == 0) {
			if (session_ctx == NULL) { printf("ok\n"); continue; }
			const clockbound_err *ce = clockbound_close(session_ctx); session_ctx = NULL;
			if (ce != NULL) print_err("closeerr", ce); else printf("ok\n");
		} else if (strncmp(line, "abi", 3) == 0) {
			/* sizeof, then (offset, size) of each member; enumerator values */
			printf("abi %zu %zu %zu %zu %zu %zu %zu ; %zu %zu %zu %zu %zu %zu %zu ; %d %d %d %d %d ; %d %d %d\n",
			       sizeof(clockbound_err), offsetof(clockbound_err, kind), sizeof(((clockbound_err *)0)->kind),
			       offsetof(clockbound_err, sys_errno), sizeof(((clockbound_err *)0)->sys_errno),
			       offsetof(clockbound_err, detail), sizeof(((clockbound_err *)0)->detail),
			       sizeof(clockbound_now_result), offsetof(clockbound_now_result, earliest), sizeof(((clockbound_now_result *)0)->earliest),
			       offsetof(clockbound_now_result, latest), sizeof(((clockbound_now_result *)0)->latest),
			       offsetof(clockbound_now_result, clock_status), sizeof(((clockbound_now_result *)0)->clock_status),
			       CLOCKBOUND_ERR_NONE, CLOCKBOUND_ERR_SYSCALL, CLOCKBOUND_ERR_SEGMENT_NOT_INITIALIZED,
			       CLOCKBOUND_ERR_SEGMENT_MALFORMED, CLOCKBOUND_ERR_CAUSALITY_BREACH,
			       CLOCKBOUND_STA_UNKNOWN, CLOCKBOUND_STA_SYNCHRONIZED, CLOCKBOUND_STA_FREE_RUNNING);
		} else if (strncmp(line, "ping", 4) == 0) {
			printf("pong %ld %ld %ld\n", reads_real, reads_mono, reads_other);
		} else {
			printf("bad-request\n");
		}
	}
	return 0;
}
