#!/bin/sh
# Builds libclockbound.so from /repo's *working tree* (dev profile: overflow checks on, like the
# harness) and the C client against clock-bound-ffi/include/clockbound.h.
#   usage: build.sh <out-dir>          (default: the directory holding cbharness, see INTEGRATION.md)
# Result: <out-dir>/cclient and <out-dir>/libclockbound.so (found through RPATH $ORIGIN).
set -eu
HERE="$(cd "$(dirname "$0")" && pwd)"
REPO="${CB_REPO:-/repo}"
OUT="${1:?usage: build.sh <out-dir>}"
mkdir -p "$OUT"
TGT="$OUT/ffi-target"
( cd "$REPO" && CARGO_NET_OFFLINE=true cargo build --offline -q -p clock-bound-ffi --target-dir "$TGT" )
cp -f "$TGT/debug/libclockbound.so" "$OUT/libclockbound.so"
# -rdynamic: export the program's clock_gettime so that libclockbound.so's calls bind to it
cc -O1 -Wall -Wextra -Werror -rdynamic -I "$REPO/clock-bound-ffi/include" -o "$OUT/cclient" "$HERE/cclient.c" \
   -L "$OUT" -lclockbound -Wl,-rpath,'$ORIGIN'
# the library must really reference clock_gettime dynamically, otherwise interposition cannot work
if ! nm -D --undefined-only "$OUT/libclockbound.so" | grep -q ' clock_gettime'; then
  echo "build.sh: libclockbound.so has no dynamic reference to clock_gettime" >&2; exit 3
fi
echo "built $OUT/cclient"
