#!/bin/bash
# usage: robust.sh <patch-id> <lake targets...>
# Applies seeded/<id>/patch.diff in a scratch worktree of /repo HEAD, runs the translator on it, reports which
# regenerated function bodies differ from the clean Code.lean, and builds the given modules with the patched
# Code.lean in a COPY of the lake workspace (/tmp/tie/threads-rb), so the main workspace is never touched.
WT=${WT:-/tmp/tie/wt-tie-threads}
WS=/tmp/tie/threads
RB=${RB:-/tmp/tie/threads-rb}
id=$1; shift
[ -d $WT ] || git -C /repo worktree add -q --detach $WT HEAD
mkdir -p $RB
rsync -a --exclude 'Generated/Code.lean' $WS/lean/ $RB/lean/
cd $WT && git checkout -q -- . && git clean -fdq
if ! git apply ${SEEDS:-$WS/seeded}/$id/patch.diff; then echo "$id: PATCH DOES NOT APPLY"; exit 0; fi
$WS/build/target-tr/debug/rs2lean $WT $RB/lean/ClockBound/Generated/Code.lean > /dev/null 2>&1
cd $WT && git checkout -q -- . && git clean -fdq
RB=$RB python3 - "$id" <<'PY'
import re,sys
def decls(p):
    s=open(p).read()
    out={}
    for m in re.finditer(r'/-- body of `([^`]+)` -/\n(.*?)\n  \]\n', s, re.S):
        out[m.group(1)]=m.group(2)
    return out
a=decls('/tmp/tie/threads/lean/ClockBound/Generated/Code.lean'); import os; b=decls(os.environ.get('RB','/tmp/tie/threads-rb')+'/lean/ClockBound/Generated/Code.lean')
ch=[k for k in set(a)|set(b) if a.get(k)!=b.get(k)]
print(sys.argv[1], "changed/new/removed function bodies:", sorted(ch))
PY
cd $RB/lean && for t in "$@"; do
  start=$(date +%s)
  if timeout 1500 lake build $t > $RB/robust-$id-$(basename $t).log 2>&1; then r=OK; else r=FAIL; fi
  echo "$id $t: $r ($(( $(date +%s) - start )) s)"
  grep "^✖\|^error: ClockBound" $RB/robust-$id-$(basename $t).log | cut -c1-160 | head -12
done
