#!/bin/bash
# usage: robust.sh <patch-id> <lake targets...>
WT=/tmp/tie/wt-tie-threads
WS=/tmp/tie/threads
id=$1; shift
cd $WT && git checkout -q -- . && git clean -fdq
if ! git apply $WS/seeded/$id/patch.diff; then echo "$id: PATCH DOES NOT APPLY"; exit 0; fi
$WS/build/target-tr/debug/rs2lean $WT $WS/lean/ClockBound/Generated/Code.lean.new > /dev/null 2>&1
cd $WT && git checkout -q -- . && git clean -fdq
# which of my functions changed?
python3 - "$id" <<'PY'
import re,sys
def decls(p):
    s=open(p).read()
    out={}
    for m in re.finditer(r'/-- body of `([^`]+)` -/\n(.*?)\n  \]\n', s, re.S):
        out[m.group(1)]=m.group(2)
    return out
a=decls('/tmp/tie/threads/lean/ClockBound/Generated/Code.lean'); b=decls('/tmp/tie/threads/lean/ClockBound/Generated/Code.lean.new')
ch=[k for k in set(a)|set(b) if a.get(k)!=b.get(k)]
print(sys.argv[1], "changed/new/removed function bodies:", sorted(ch))
PY
if [ $# -gt 0 ]; then
  cp $WS/lean/ClockBound/Generated/Code.lean $WS/lean/ClockBound/Generated/Code.lean.orig
  cp $WS/lean/ClockBound/Generated/Code.lean.new $WS/lean/ClockBound/Generated/Code.lean
  cd $WS/lean && for t in "$@"; do
    start=$(date +%s)
    if timeout 1500 lake build $t > $WS/build/robust-$id-$(basename $t).log 2>&1; then r=OK; else r=FAIL; fi
    echo "$id $t: $r ($(( $(date +%s) - start )) s)"
    [ $r = FAIL ] && grep -m3 "error" $WS/build/robust-$id-$(basename $t).log | cut -c1-300
  done
  cp $WS/lean/ClockBound/Generated/Code.lean.orig $WS/lean/ClockBound/Generated/Code.lean
  rm -f $WS/lean/ClockBound/Generated/Code.lean.orig
fi
rm -f $WS/lean/ClockBound/Generated/Code.lean.new
